package chk

import (
	"fmt"
	"go/token"
	"go/types"
	"strings"

	"golang.org/x/tools/go/ssa"
)

// ---- E13-I1 delete-rewind -------------------------------------------------------------------

// inPlaceDeletes finds  X = append(X[:i], X[i+1:]...)  stores; returns the store and the index value.
func inPlaceDeletes(fn *ssa.Function) (out []struct {
	st  *ssa.Store
	idx ssa.Value
}) {
	for _, b := range fn.Blocks {
		for _, ins := range b.Instrs {
			st, ok := ins.(*ssa.Store)
			if !ok {
				continue
			}
			c, ok := st.Val.(*ssa.Call)
			if !ok {
				continue
			}
			if bi, ok := c.Call.Value.(*ssa.Builtin); !ok || bi.Name() != "append" {
				continue
			}
			s0, ok0 := c.Call.Args[0].(*ssa.Slice)
			s1, ok1 := c.Call.Args[1].(*ssa.Slice)
			if !ok0 || !ok1 || s0.High == nil || s0.Low != nil || s1.Low == nil || s1.High != nil {
				continue
			}
			b0, k0 := linear(s0.High)
			b1, k1 := linear(s1.Low)
			if b0 != b1 || k1 != k0+1 {
				continue
			}
			// both slices are of the location being assigned
			_, f := fieldOfAddr(st.Addr)
			_, f0, _ := loadedField(s0.X)
			_, f1, _ := loadedField(s1.X)
			if f == "" || f0 != f || f1 != f {
				continue
			}
			out = append(out, struct {
				st  *ssa.Store
				idx ssa.Value
			}{st, b0})
		}
	}
	return
}

// deltaVia: net change of loop variable ph along the paths through block via, from the phi to its
// back-edge value; ok=false when it cannot be determined.
func deltaVia(v ssa.Value, ph *ssa.Phi, via *ssa.BasicBlock, seen map[ssa.Value]bool) (int64, int64, bool) {
	if v == ssa.Value(ph) {
		return 0, 0, true
	}
	if seen[v] {
		return 0, 0, false
	}
	seen[v] = true
	base, k := linear(v)
	if base != v {
		lo, hi, ok := deltaVia(base, ph, via, seen)
		return lo + k, hi + k, ok
	}
	if p2, ok := v.(*ssa.Phi); ok {
		// restrict to edges whose predecessor is reached through the deleting block
		var edges []ssa.Value
		for i, e := range p2.Edges {
			pb := p2.Block().Preds[i]
			if pb == via || via.Dominates(pb) {
				edges = append(edges, e)
			}
		}
		if len(edges) == 0 {
			edges = p2.Edges
		}
		lo, hi := infW, -infW
		for _, e := range edges {
			l, h, ok := deltaVia(e, ph, via, seen)
			if !ok {
				return 0, 0, false
			}
			if l < lo {
				lo = l
			}
			if h > hi {
				hi = h
			}
		}
		return lo, hi, true
	}
	return 0, 0, false
}

func ruleDeleteRewind(names ...string) func(p *Prog, l *Ledger, tier string) {
	return func(p *Prog, l *Ledger, tier string) {
		const rule = "E13.I1-delete-rewind"
		for _, name := range names {
			fn := anchor(p, l, rule, name)
			if fn == nil {
				continue
			}
			dels := inPlaceDeletes(fn)
			if len(dels) == 0 {
				l.Prove(rule, name, rule+"|"+name+"|idiom-absent", p.Pos(fn.Pos()), "idiom-absent: no in-place deletion X = append(X[:i], X[i+1:]...) in "+name)
				continue
			}
			for _, d := range dels {
				key := l.Key(rule, name, "delete", descOf(d.idx))
				pos := p.Pos(d.st.Pos())
				// deleting from the slice a `range` clause is iterating
				if loc, _ := locOf(d.st.Addr); loc != "" {
					ranged := false
					for _, li := range loopsOf(fn) {
						if li.header.Comment != "rangeindex.loop" || !li.blocks[d.st.Block()] {
							continue
						}
						for _, ins := range li.header.Instrs {
							bo, ok := ins.(*ssa.BinOp)
							if !ok || bo.Op != token.LSS {
								continue
							}
							if c, ok := bo.Y.(*ssa.Call); ok {
								if bi, ok := c.Call.Value.(*ssa.Builtin); ok && bi.Name() == "len" {
									if ld, ok := c.Call.Args[0].(*ssa.UnOp); ok {
										if l2, _ := locOf(ld.X); l2 == loc {
											ranged = true
										}
									}
								}
							}
						}
					}
					if ranged {
						l.Fail(rule, name, key, pos, name+": elements are deleted from "+loc+" inside a `range` over it: the range clause keeps the length and the positions it saw at the start, so after a deletion the element that slid into the freed position is never visited (and the tail is visited twice): cues that follow a removed one are not shifted, or are shifted twice")
						continue
					}
				}
				ph, ok := d.idx.(*ssa.Phi)
				if !ok {
					l.Undecide(rule, name, key, pos, "the deletion index is not a loop variable")
					continue
				}
				// back-edge values of the loop variable
				lp := loopOf(ph.Block())
				okAll, any := true, false
				why := ""
				// only the ways round the loop that come from the deletion matter
				fromDel := map[*ssa.BasicBlock]bool{d.st.Block(): true}
				work := []*ssa.BasicBlock{d.st.Block()}
				for len(work) > 0 {
					x := work[len(work)-1]
					work = work[:len(work)-1]
					for _, sc := range x.Succs {
						if sc != ph.Block() && !fromDel[sc] && lp != nil && lp[sc] {
							fromDel[sc] = true
							work = append(work, sc)
						}
					}
				}
				for i, e := range ph.Edges {
					if lp == nil || !lp[ph.Block().Preds[i]] || !fromDel[ph.Block().Preds[i]] {
						continue
					}
					any = true
					lo, hi, ok := deltaVia(e, ph, d.st.Block(), map[ssa.Value]bool{})
					if !ok {
						okAll = false
						why = "the update of the loop variable after the deletion cannot be followed"
					} else if lo != 0 || hi != 0 {
						okAll = false
						why = fmt.Sprintf("after deleting element %s the loop variable advances by %d: the element that slid into position %s is skipped", phiName(ph), lo, phiName(ph))
					}
				}
				if !any {
					// the deletion leaves the loop (break/return) — nothing to rewind
					l.Prove(rule, name, key, pos, "the deletion is not inside a loop over the same index")
					continue
				}
				if okAll {
					l.Prove(rule, name, key, pos, "on every path from the deletion to the next iteration the index is unchanged (decrement cancels the post-increment)")
				} else {
					l.Fail(rule, name, key, pos, name+": "+why)
				}
			}
		}
	}
}

// ---- E13-I2 twin update -----------------------------------------------------------------------

// exprIso: expression trees a and b are the same up to the field swap fa <-> fb.
func exprIso(an *NilAnalysis, a, b ssa.Value, fa, fb string, depth int) bool {
	if depth > 12 {
		return false
	}
	if a == b {
		// the same SSA value on both sides must not itself read one of the twin fields
		_, f, _ := loadedField(a)
		return f != fa && f != fb
	}
	ca, oka := a.(*ssa.Const)
	cb, okb := b.(*ssa.Const)
	if oka || okb {
		return oka && okb && ((ca.Value == nil && cb.Value == nil) || (ca.Value != nil && cb.Value != nil && ca.Value.ExactString() == cb.Value.ExactString())) && types.Identical(ca.Type(), cb.Type())
	}
	// loads of the twin fields through the same base
	ta, fla, ba := loadedField(a)
	tb, flb, bb := loadedField(b)
	if ba != nil && bb != nil {
		if ta == tb && ((fla == fa && flb == fb) || (fla == fb && flb == fa)) && an.key(ba) == an.key(bb) {
			return true
		}
		if ta == tb && fla == flb && fla != fa && fla != fb && an.key(ba) == an.key(bb) {
			return true
		}
		return false
	}
	switch x := a.(type) {
	case *ssa.BinOp:
		y, ok := b.(*ssa.BinOp)
		if !ok || x.Op != y.Op {
			return false
		}
		if exprIso(an, x.X, y.X, fa, fb, depth+1) && exprIso(an, x.Y, y.Y, fa, fb, depth+1) {
			return true
		}
		if x.Op == token.ADD || x.Op == token.MUL {
			return exprIso(an, x.X, y.Y, fa, fb, depth+1) && exprIso(an, x.Y, y.X, fa, fb, depth+1)
		}
	case *ssa.Call:
		// the same function (or the same closure value) applied to isomorphic arguments
		y, ok := b.(*ssa.Call)
		if !ok || len(x.Call.Args) != len(y.Call.Args) || x.Call.IsInvoke() || y.Call.IsInvoke() {
			return false
		}
		if x.Call.Value != y.Call.Value {
			return false
		}
		for i := range x.Call.Args {
			if !exprIso(an, x.Call.Args[i], y.Call.Args[i], fa, fb, depth+1) {
				return false
			}
		}
		return true
	case *ssa.Convert:
		y, ok := b.(*ssa.Convert)
		return ok && types.Identical(x.Type(), y.Type()) && exprIso(an, x.X, y.X, fa, fb, depth+1)
	case *ssa.ChangeType:
		y, ok := b.(*ssa.ChangeType)
		return ok && exprIso(an, x.X, y.X, fa, fb, depth+1)
	case *ssa.UnOp:
		y, ok := b.(*ssa.UnOp)
		return ok && x.Op == y.Op && exprIso(an, x.X, y.X, fa, fb, depth+1)
	}
	return false
}

// twinThroughParam: helper h writes through its pointer parameter par; in root (and its helpers) every block that
// calls h passes the addresses of exactly Item.StartAt and Item.EndAt (one call taking them from a table of
// both, or two calls that differ in nothing else): both boundaries go through the same code.
func twinThroughParam(p *Prog, root, h *ssa.Function, par *ssa.Parameter) bool {
	k := -1
	for i, q := range h.Params {
		if q == par {
			k = i
		}
	}
	if k < 0 {
		return false
	}
	found := false
	for _, b := range p.helperBlocks(root) {
		fs := strset{}
		var first *ssa.Call
		for _, ins := range b.Instrs {
			c, ok := ins.(*ssa.Call)
			if !ok || k >= len(c.Call.Args) {
				continue
			}
			if c.Call.StaticCallee() != h {
				// a call through a function value (the visitor's callback) that the call graph resolves to h
				if c.Call.StaticCallee() != nil || c.Call.IsInvoke() {
					continue
				}
				callees, _ := p.Callees(b.Parent(), c)
				isH := false
				for _, cc := range callees {
					if cc == h {
						isH = true
					}
				}
				if !isH {
					continue
				}
			}
			for _, lc := range locsOf(c.Call.Args[k], 0) {
				fs.add(lc[0])
			}
			if first == nil {
				first = c
			} else {
				for i := range c.Call.Args {
					if i != k && c.Call.Args[i] != first.Call.Args[i] {
						return false
					}
				}
			}
		}
		if first == nil {
			continue
		}
		if !(fs["Item.StartAt"] && fs["Item.EndAt"] && len(fs) == 2) {
			return false
		}
		found = true
	}
	return found
}

// ruleTwinUpdate: in each named function, every non-constant store to StartAt has a twin store to
// EndAt in the same block through the same item, with an isomorphic expression (and vice versa).
func ruleTwinUpdate(names ...string) func(p *Prog, l *Ledger, tier string) {
	return func(p *Prog, l *Ledger, tier string) {
		const rule = "E13.I2-twin-update"
		an := NewNilAnalysis(p)
		n := 0
		for _, name := range names {
			fn := anchor(p, l, rule, name)
			if fn == nil {
				continue
			}
			// every non-constant StartAt store of the operation (for blocks that clamp StartAt to a constant)
			var allStarts []*ssa.Store
			for _, b := range p.helperBlocks(fn) {
				for _, ins := range b.Instrs {
					if st, ok := ins.(*ssa.Store); ok {
						if t, f := fieldOfAddr(st.Addr); t == "Item" && f == "StartAt" {
							if _, isConst := stripConv(st.Val).(*ssa.Const); !isConst {
								allStarts = append(allStarts, st)
							}
						}
					}
				}
			}
			for _, b := range p.helperBlocks(fn) {
				constStart := 0
				var starts, ends, both []*ssa.Store
				for _, ins := range b.Instrs {
					st, ok := ins.(*ssa.Store)
					if !ok {
						continue
					}
					t, f := fieldOfAddr(st.Addr)
					if t == "" {
						// one store through a table of field addresses ({&i.StartAt, &i.EndAt}): both boundaries
						// receive the same expression by construction
						var fs strset = strset{}
						for _, lc := range locsOf(st.Addr, 0) {
							fs.add(lc[0])
						}
						if fs["Item.StartAt"] && fs["Item.EndAt"] && len(fs) == 2 {
							both = append(both, st)
						} else if par, ok := st.Addr.(*ssa.Parameter); ok && b.Parent() != fn && twinThroughParam(p, fn, b.Parent(), par) {
							both = append(both, st)
						}
						continue
					}
					if t != "Item" {
						continue
					}
					if _, isConst := st.Val.(*ssa.Const); isConst {
						if f == "StartAt" {
							constStart++
						}
						continue // clamp to a constant: not part of the shift
					}
					if cv, ok := st.Val.(*ssa.Convert); ok {
						if _, isConst := cv.X.(*ssa.Const); isConst {
							if f == "StartAt" {
								constStart++
							}
							continue
						}
					}
					switch f {
					case "StartAt":
						starts = append(starts, st)
					case "EndAt":
						ends = append(ends, st)
					}
				}
				if len(both) > 0 && len(starts) == 0 && len(ends) == 0 {
					n++
					l.Prove(rule, name, l.Key(rule, name, "twin", ""), p.Pos(both[0].Pos()), "StartAt and EndAt are updated by one store through a table of their addresses: the same expression by construction")
					continue
				}
				if len(starts) == 0 && len(ends) == 0 {
					continue
				}
				n++
				key := l.Key(rule, name, "twin", "")
				pos := p.Pos(b.Instrs[0].Pos())
				if len(starts) > 0 {
					pos = p.Pos(starts[0].Pos())
				} else {
					pos = p.Pos(ends[0].Pos())
				}
				if len(starts) == 0 && constStart > 0 && len(ends) == 1 {
					// the clamped branch: StartAt gets the constant, EndAt the shifted value; that value must be
					// the one StartAt gets where it is not clamped
					okIso := false
					for _, s0 := range allStarts {
						if exprIso(an, s0.Val, ends[0].Val, "StartAt", "EndAt", 0) {
							okIso = true
						}
					}
					if okIso {
						l.Prove(rule, name, key, pos, "StartAt is clamped to a constant here and EndAt receives the expression StartAt receives elsewhere, up to the field swap")
					} else {
						l.Fail(rule, name, key, pos, name+": where StartAt is clamped, EndAt receives an expression that is not the one StartAt receives elsewhere: the two boundaries are not mapped alike")
					}
					continue
				}
				if len(starts) != 1 || len(ends) != 1 {
					l.Fail(rule, name, key, pos, fmt.Sprintf("%s updates StartAt %d time(s) and EndAt %d time(s) in one step: the two boundaries of a cue must receive the same update", name, len(starts), len(ends)))
					continue
				}
				sb := starts[0].Addr.(*ssa.FieldAddr).X
				eb := ends[0].Addr.(*ssa.FieldAddr).X
				if an.key(sb) != an.key(eb) {
					l.Fail(rule, name, key, pos, name+": StartAt and EndAt are updated on different items in the same step")
					continue
				}
				if exprIso(an, starts[0].Val, ends[0].Val, "StartAt", "EndAt", 0) {
					l.Prove(rule, name, key, pos, "StartAt and EndAt of the same item receive the same expression up to the field swap")
				} else {
					l.Fail(rule, name, key, pos, name+": the expressions stored into StartAt and EndAt differ (other than by reading the respective field): the two boundaries are not mapped alike")
				}
			}
		}
		l.Min(rule, n, len(names))
	}
}

// ---- E13-I3 whole copy (Fragment) --------------------------------------------------------------

func ruleWholeCopy(p *Prog, l *Ledger, tier string) {
	const rule = "E13.I3-whole-copy"
	fn := anchor(p, l, rule, "Subtitles.Fragment")
	if fn == nil {
		return
	}
	st := modelStruct(p, "Item")
	n := 0
	var blocks []*ssa.BasicBlock
	for _, f := range p.Closure([]*ssa.Function{fn}) {
		blocks = append(blocks, f.Blocks...)
	}
	for _, b := range blocks {
		for _, ins := range b.Instrs {
			al, ok := ins.(*ssa.Alloc)
			if !ok || typeStr(al.Type().(*types.Pointer).Elem()) != "Item" {
				continue
			}
			// a spilled copy of a value receiver / parameter is not a new piece
			spilled := false
			for _, ref := range *al.Referrers() {
				if st2, ok := ref.(*ssa.Store); ok && st2.Addr == ssa.Value(al) {
					if _, isPar := st2.Val.(*ssa.Parameter); isPar {
						spilled = true
					}
				}
			}
			if spilled {
				continue
			}
			n++
			key := l.Key(rule, FnName(b.Parent()), "new-item", "")
			whole := false
			fields := strset{}
			for _, ref := range *al.Referrers() {
				switch r := ref.(type) {
				case *ssa.Store:
					if r.Addr == ssa.Value(al) {
						if u, ok := r.Val.(*ssa.UnOp); ok && u.Op == token.MUL && typeStr(u.Type()) == "Item" {
							whole = true
						}
					}
				case *ssa.FieldAddr:
					for _, r2 := range *r.Referrers() {
						if s2, ok := r2.(*ssa.Store); ok && s2.Addr == ssa.Value(r) {
							fields.add(fieldName(r.X.Type(), r.Field))
						}
					}
				}
			}
			all := st != nil
			var missing []string
			if st != nil {
				for i := 0; i < st.NumFields(); i++ {
					if !fields[st.Field(i).Name()] {
						all = false
						missing = append(missing, st.Field(i).Name())
					}
				}
			}
			switch {
			case whole:
				l.Prove(rule, "Subtitles.Fragment", key, p.Pos(al.Pos()), "the new piece is initialised by a whole-value copy of an existing item (carries every field, present and future)")
			case all:
				l.Prove(rule, "Subtitles.Fragment", key, p.Pos(al.Pos()), "the new piece is a literal naming every field of Item")
			default:
				l.Fail(rule, "Subtitles.Fragment", key, p.Pos(al.Pos()), "a piece created by Fragment is not a whole copy of its source: fields "+strings.Join(missing, ", ")+" are left at their zero value")
			}
		}
	}
	l.Min(rule, n, 1)
}

// ---- E12 guards ---------------------------------------------------------------------------------

// callsTo: call instructions in fn whose static callee has the given short name.
func callsTo(fn *ssa.Function, name string) []*ssa.Call {
	var out []*ssa.Call
	for _, b := range fn.Blocks {
		for _, ins := range b.Instrs {
			if c, ok := ins.(*ssa.Call); ok {
				if sc := c.Call.StaticCallee(); sc != nil && FnName(sc) == name {
					out = append(out, c)
				}
			}
		}
	}
	return out
}

// reachesReturnAvoiding: a Return is reachable from start without passing a block in avoid.
func reachesReturnAvoiding(start *ssa.BasicBlock, avoid map[*ssa.BasicBlock]bool) bool {
	seen := map[*ssa.BasicBlock]bool{}
	work := []*ssa.BasicBlock{start}
	for len(work) > 0 {
		b := work[len(work)-1]
		work = work[:len(work)-1]
		if seen[b] || avoid[b] {
			continue
		}
		seen[b] = true
		if _, ok := b.Instrs[len(b.Instrs)-1].(*ssa.Return); ok {
			return true
		}
		work = append(work, b.Succs...)
	}
	return false
}

// ruleOrderDiscipline: G4 — Unfragment orders before scanning; Fragment orders after inserting.
func ruleOrderBefore(p *Prog, l *Ledger, tier string) {
	const rule = "E12.G4-order-before-scan"
	fn := anchor(p, l, rule, "Subtitles.Unfragment")
	if fn == nil {
		return
	}
	ords := callsTo(fn, "Subtitles.Order")
	key := rule + "|Subtitles.Unfragment"
	if len(ords) == 0 {
		l.Fail(rule, "Subtitles.Unfragment", key, p.Pos(fn.Pos()), "Unfragment never orders the list: touching same-text cues that are not adjacent in list order are not merged")
		return
	}
	// every loop header is dominated by an Order call
	bad := ""
	for _, li := range loopsOf(fn) {
		dom := false
		for _, o := range ords {
			if o.Block().Dominates(li.header) {
				dom = true
			}
		}
		if !dom {
			bad = blockPos(p, li.header)
		}
	}
	if bad != "" {
		l.Fail(rule, "Subtitles.Unfragment", key, bad, "the merge scan at "+bad+" is not preceded by Order() on every path")
	} else {
		l.Prove(rule, "Subtitles.Unfragment", key, p.Pos(ords[0].Pos()), "Order() dominates every scan loop")
	}
}

func ruleOrderAfter(p *Prog, l *Ledger, tier string) {
	const rule = "E12.G4-order-after-insert"
	fn := anchor(p, l, rule, "Subtitles.Fragment")
	if fn == nil {
		return
	}
	avoid := map[*ssa.BasicBlock]bool{}
	for _, o := range callsTo(fn, "Subtitles.Order") {
		avoid[o.Block()] = true
	}
	n := 0
	for _, hb := range p.helperBlocks(fn) {
		for _, ins := range hb.Instrs {
			st, ok := ins.(*ssa.Store)
			if !ok {
				continue
			}
			if _, f := fieldOfAddr(st.Addr); f != "Items" {
				continue
			}
			// where the insertion happens in Fragment itself (the call of the helper that holds it)
			site := p.siteIn(fn, st)
			if site == nil {
				l.Undecide(rule, "Subtitles.Fragment", l.Key(rule, "Subtitles.Fragment", "insert", "helper"), p.Pos(st.Pos()), "the helper that stores into Items is called from several places in Fragment")
				continue
			}
			b := site.Block()
			n++
			key := l.Key(rule, "Subtitles.Fragment", "insert", "")
			if reachesReturnAvoiding(b, avoid) && !avoid[b] {
				l.Fail(rule, "Subtitles.Fragment", key, p.Pos(st.Pos()), "after inserting a piece Fragment can return without calling Order(): the result is not ordered by start")
			} else {
				l.Prove(rule, "Subtitles.Fragment", key, p.Pos(st.Pos()), "every path from the insertion to a return passes Order()")
			}
		}
	}
	l.Min(rule, n, 1)
}

// ruleOptimizeGuard: G6 + deletions keyed by the ranged key.
func ruleOptimizeGuard(p *Prog, l *Ledger, tier string) {
	const rule = "E12.G6-optimize-guard"
	fn := anchor(p, l, rule, "Subtitles.Optimize")
	if fn == nil {
		return
	}
	a := NewNilAnalysis(p)
	calls := callsTo(fn, "Subtitles.removeUnusedRegionsAndStyles")
	key := rule + "|Subtitles.Optimize"
	if len(calls) == 0 {
		// the marking may have been inlined; then the deletes themselves must be guarded
		l.Note("Optimize no longer calls removeUnusedRegionsAndStyles; guard checked on the delete sites")
	}
	guarded := func(b *ssa.BasicBlock) bool {
		a.cur, a.curFn = b.Instrs[0], fn
		defer func() { a.cur, a.curFn = nil, nil }()
		g := a.newGraph(fn, b.Instrs[0])
		// len(s.Items) ≥ 1 at b: find the len(...) register of a load of Items
		for _, bb := range fn.Blocks {
			for _, ins := range bb.Instrs {
				if c, ok := ins.(*ssa.Call); ok {
					if bi, ok := c.Call.Value.(*ssa.Builtin); ok && bi.Name() == "len" {
						if _, f, _ := loadedField(c.Call.Args[0]); f == "Items" {
							g.defineLen(c.Call.Args[0], 0)
							if g.proveLE(zeroTerm, 1, "len("+a.regKey(c.Call.Args[0])+")", 0) {
								return true
							}
						}
					}
				}
			}
		}
		return false
	}
	ok := len(calls) > 0
	for _, c := range calls {
		if !guarded(c.Block()) {
			ok = false
		}
	}
	if ok {
		l.Prove(rule, "Subtitles.Optimize", key, p.Pos(calls[0].Pos()), "definitions are removed only when len(s.Items) ≥ 1 (an empty list is left alone)")
	} else {
		l.Fail(rule, "Subtitles.Optimize", key, p.Pos(fn.Pos()), "Optimize removes definitions without first establishing that the list has at least one cue")
	}
	// deletes use the key of the map being ranged
	n := 0
	for _, f := range p.Closure([]*ssa.Function{fn}) {
		for _, b := range f.Blocks {
			for _, ins := range b.Instrs {
				c, isCall := ins.(*ssa.Call)
				if !isCall {
					continue
				}
				bi, isB := c.Call.Value.(*ssa.Builtin)
				if !isB || bi.Name() != "delete" {
					continue
				}
				n++
				k2 := l.Key(rule, FnName(f), "delete", descOf(c.Call.Args[0]))
				ex, isEx := c.Call.Args[1].(*ssa.Extract)
				good := false
				if isEx && ex.Index == 1 {
					if nx, isNx := ex.Tuple.(*ssa.Next); isNx {
						if r, isR := nx.Iter.(*ssa.Range); isR && a.key(r.X) == a.key(c.Call.Args[0]) {
							good = true
						}
					}
				}
				if good {
					l.Prove(rule, FnName(f), k2, p.Pos(c.Pos()), "deletes the entry under the key currently ranged over in the same map")
				} else {
					l.Fail(rule, FnName(f), k2, p.Pos(c.Pos()), FnName(f)+": delete uses a key other than the range key of the same map (definitions are keyed by their identifier)")
				}
			}
		}
	}
	l.Min(rule+".deletes", n, 2)
}

// ruleForceDurationGuards: G5.
func ruleForceDurationGuards(p *Prog, l *Ledger, tier string) {
	const rule = "E12.G5-forceduration"
	fn := anchor(p, l, rule, "Subtitles.ForceDuration")
	if fn == nil {
		return
	}
	flag := fn.Params[2]
	// (a) every append of a freshly allocated item is control-dependent on the flag
	nFill := 0
	for _, b := range fn.Blocks {
		for _, ins := range b.Instrs {
			st, ok := ins.(*ssa.Store)
			if !ok {
				continue
			}
			if _, f := fieldOfAddr(st.Addr); f != "Items" {
				continue
			}
			c, ok := st.Val.(*ssa.Call)
			if !ok {
				continue
			}
			if bi, ok := c.Call.Value.(*ssa.Builtin); !ok || bi.Name() != "append" {
				continue
			}
			nFill++
			key := l.Key(rule, "Subtitles.ForceDuration", "filler", "")
			dep := false
			for x := b; x != nil; x = x.Idom() {
				d := x.Idom()
				if d == nil || len(x.Preds) != 1 || x.Preds[0] != d {
					continue
				}
				if iff, ok := d.Instrs[len(d.Instrs)-1].(*ssa.If); ok && iff.Cond == ssa.Value(flag) && d.Succs[0] == x {
					dep = true
				}
			}
			if dep {
				l.Prove(rule, "Subtitles.ForceDuration", key, p.Pos(st.Pos()), "the filler cue is appended only on the true edge of the addDummyItem parameter")
			} else {
				l.Fail(rule, "Subtitles.ForceDuration", key, p.Pos(st.Pos()), "a cue is appended on a path that does not test the addDummyItem parameter: a filler appears although none was requested")
			}
		}
	}
	l.Min(rule+".filler", nFill, 1)
	// (b) the equal-duration early return precedes every effect
	var eqIf *ssa.If
	for _, b := range fn.Blocks {
		if iff, ok := b.Instrs[len(b.Instrs)-1].(*ssa.If); ok {
			if bo, ok := iff.Cond.(*ssa.BinOp); ok && bo.Op == token.EQL {
				for _, side := range []ssa.Value{bo.X, bo.Y} {
					if c, ok := side.(*ssa.Call); ok {
						if sc := c.Call.StaticCallee(); sc != nil && FnName(sc) == "Subtitles.Duration" {
							other := bo.Y
							if side == bo.Y {
								other = bo.X
							}
							if throughLocalCell(other) == ssa.Value(fn.Params[1]) { // d itself, or d captured by a closure (then it lives in a cell assigned once)
								eqIf = iff
							}
						}
					}
				}
			}
		}
		if eqIf != nil {
			break
		}
	}
	key := rule + "|equal-duration-return"
	if eqIf == nil {
		l.Fail(rule, "Subtitles.ForceDuration", key, p.Pos(fn.Pos()), "no early return on Duration() == d found: a list already lasting exactly d may be modified")
		return
	}
	tb := eqIf.Block().Succs[0]
	if _, ok := tb.Instrs[len(tb.Instrs)-1].(*ssa.Return); !ok {
		l.Fail(rule, "Subtitles.ForceDuration", key, p.Pos(eqIf.Pos()), "the Duration() == d branch does not return immediately")
		return
	}
	fb := eqIf.Block().Succs[1]
	bad := ""
	for _, b := range fn.Blocks {
		for _, ins := range b.Instrs {
			if st, ok := ins.(*ssa.Store); ok {
				if t, _ := fieldOfAddr(st.Addr); t != "" && !fb.Dominates(b) {
					bad = p.Pos(st.Pos())
				}
			}
		}
	}
	if bad != "" {
		l.Fail(rule, "Subtitles.ForceDuration", key, bad, "a store at "+bad+" is not dominated by the Duration() != d edge: the list may change although it already lasts exactly d")
	} else {
		l.Prove(rule, "Subtitles.ForceDuration", key, p.Pos(eqIf.Pos()), "every store is dominated by the false edge of Duration() == d, whose true edge returns at once")
	}
}

// ruleTextIdentity: C11 (d) — Unfragment compares Item.String() of element i with element j.
func ruleTextIdentity(p *Prog, l *Ledger, tier string) {
	const rule = "E10.text-identity"
	fn := anchor(p, l, rule, "Subtitles.Unfragment")
	if fn == nil {
		return
	}
	str := anchor(p, l, rule, "Item.String")
	if str == nil {
		return
	}
	n := 0
	var blocks []*ssa.BasicBlock
	for _, h := range p.Helpers(fn) {
		if fnPkg(h) == p.LibSSA && h != str && FnName(h) != "Line.String" {
			blocks = append(blocks, h.Blocks...)
		}
	}
	for _, b := range blocks {
		for _, ins := range b.Instrs {
			// sameness decided by a map keyed by the identity string: m[item.String()]
			if lk, isLk := ins.(*ssa.Lookup); isLk {
				mt, isMap := lk.X.Type().Underlying().(*types.Map)
				if !isMap || !isStringT(mt.Key()) {
					continue
				}
				kc, isCall := lk.Index.(*ssa.Call)
				if !isCall || kc.Call.StaticCallee() != str {
					continue
				}
				n++
				key := l.Key(rule, "Subtitles.Unfragment", "compare", "")
				okKeys := true
				if refs := lk.X.Referrers(); refs != nil {
					for _, r := range *refs {
						if mu, ok := r.(*ssa.MapUpdate); ok {
							if uc, ok := mu.Key.(*ssa.Call); !ok || uc.Call.StaticCallee() != str {
								okKeys = false
							}
						}
					}
				}
				if stale := keptWithoutMapUpdate(lk); okKeys && stale != nil {
					l.Fail(rule, "Subtitles.Unfragment", key, p.Pos(stale.Pos()), "Subtitles.Unfragment keeps a cue at "+p.Pos(stale.Pos())+" on a path that does not record it in the map of last kept cues: a later cue with the same text is then compared with an older cue (one it does not touch) and stays unmerged although it touches the one kept here")
				} else if okKeys {
					l.Prove(rule, "Subtitles.Unfragment", key, p.Pos(lk.Pos()), "sameness is decided by a map keyed by Item.String(): entries are stored and looked up under the rendered string, and every cue that is kept is recorded")
				} else {
					l.Fail(rule, "Subtitles.Unfragment", key, p.Pos(lk.Pos()), "the map consulted under Item.String() is filled under another key: cues are matched by something other than the rendered string")
				}
				continue
			}
			bo, ok := ins.(*ssa.BinOp)
			if !ok || (bo.Op != token.EQL && bo.Op != token.NEQ) {
				continue
			}
			cx, okx := bo.X.(*ssa.Call)
			cy, oky := bo.Y.(*ssa.Call)
			if !okx && !oky {
				// identity strings computed once into a table kept parallel to the list
				tx, ty := identityTableOf(bo.X), identityTableOf(bo.Y)
				if tx != nil && ty != nil && tx.mk == ty.mk {
					n++
					key := l.Key(rule, "Subtitles.Unfragment", "compare", "")
					if why := identityTableSound(p, b.Parent(), tx, str); strings.HasPrefix(why, "VIOLATION: ") {
						l.Fail(rule, "Subtitles.Unfragment", key, p.Pos(bo.Pos()), "Subtitles.Unfragment compares entries of a table of identity strings: "+strings.TrimPrefix(why, "VIOLATION: "))
					} else if why != "" {
						l.Undecide(rule, "Subtitles.Unfragment", key, p.Pos(bo.Pos()), "the merge test compares entries of a table of strings, and that table is not shown to hold Item.String() of the cue at the same index at every moment: "+why)
					} else {
						l.Prove(rule, "Subtitles.Unfragment", key, p.Pos(bo.Pos()), "both operands are entries of a table filled with Item.String() of the cue at the same index after ordering, and deleted from in lockstep with the list")
					}
				}
				continue
			}
			if !okx || !oky || !isStringT(cx.Type()) || !isStringT(cy.Type()) {
				continue
			}
			n++
			key := l.Key(rule, "Subtitles.Unfragment", "compare", "")
			sx, sy := cx.Call.StaticCallee(), cy.Call.StaticCallee()
			if sx == nil || sy == nil || sx != sy || sx != str {
				l.Fail(rule, "Subtitles.Unfragment", key, p.Pos(bo.Pos()), "the merge test does not compare Item.String() of both cues (same text function on both operands)")
				continue
			}
			l.Prove(rule, "Subtitles.Unfragment", key, p.Pos(bo.Pos()), "both operands are Item.String() of list elements")
		}
	}
	if n == 0 {
		l.Fail(rule, "Subtitles.Unfragment", rule+"|Subtitles.Unfragment|compare|absent", p.Pos(fn.Pos()), "Subtitles.Unfragment no longer decides sameness by an equality of two Item.String() results: the text identity of the property is the rendered string (runs of a line concatenated, lines joined); any finer comparison (run by run, line by line) leaves cues that read the same but are cut differently unmerged")
	}
	// the identity strings are built with strings.Join: every line / run contributes, and lines are
	// separated by a non-empty separator wherever they are (a separator placed by looking at what has
	// been accumulated so far drops leading empty lines from the identity)
	for _, spec := range []struct {
		fn     string
		nonEmp bool
	}{{"Item.String", true}, {"Line.String", false}} {
		f := p.Fn(spec.fn)
		if f == nil {
			continue
		}
		key := rule + "|join|" + spec.fn
		good, why := true, ""
		if ok, what := builderJoin(f, spec.nonEmp); ok {
			l.Prove(rule, spec.fn, key, "", spec.fn+" "+what)
			continue
		}
		if !spec.nonEmp {
			if ok, what := byteAppendConcat(f); ok {
				l.Prove(rule, spec.fn, key, "", spec.fn+" "+what)
				continue
			}
		}
		for _, b := range f.Blocks {
			r, ok := b.Instrs[len(b.Instrs)-1].(*ssa.Return)
			if !ok {
				continue
			}
			c, ok := r.Results[0].(*ssa.Call)
			if !ok || calleeName(&c.Call) != "strings.Join" {
				if len(r.Results) == 1 && (singleElementFastPath(r) || emptyListFastPath(r)) {
					continue // what Join gives for one element and for none
				}
				good, why = false, "it no longer returns strings.Join(…)"
				continue
			}
			sep, isC := constStr(c.Call.Args[1])
			if !isC || (spec.nonEmp && sep == "") {
				good, why = false, "the separator is not a non-empty constant"
			}
		}
		if good {
			l.Prove(rule, spec.fn, key, "", spec.fn+" is strings.Join over one string per element")
		} else {
			l.Undecide(rule, spec.fn, key, p.Pos(f.Pos()), spec.fn+" is the text identity Unfragment compares, and "+why+": whether every line still contributes (with a separator at every position) cannot be read off its shape")
		}
	}
	// the identity is made of the texts themselves: nothing rewrites them on the way (a normalisation of spaces makes
	// cues with distinct texts compare equal)
	for _, h := range p.Helpers(str) {
		if fnPkg(h) != p.LibSSA {
			continue
		}
		for _, b := range h.Blocks {
			for _, ins := range b.Instrs {
				c, ok := ins.(*ssa.Call)
				if !ok {
					continue
				}
				if _, isB := c.Call.Value.(*ssa.Builtin); isB {
					continue
				}
				cn := calleeName(&c.Call)
				if sc := c.Call.StaticCallee(); sc != nil && fnPkg(sc) == p.LibSSA {
					continue
				}
				if cn == "strings.Join" || strings.HasPrefix(cn, "(*strings.Builder).") || strings.HasPrefix(cn, "(*bytes.Buffer).") {
					continue
				}
				if cn == "strings.TrimSuffix" {
					// the separator written after the last line, cut off again: part of a join recognised as such
					if ok, _ := builderJoinTrimSuffix(h, true, func(ins ssa.Instruction, name string) (*ssa.Call, bool) {
						c2, ok := ins.(*ssa.Call)
						if !ok {
							return nil, false
						}
						sc := c2.Call.StaticCallee()
						return c2, sc != nil && sc.String() == "(*strings.Builder)."+name
					}); ok {
						continue
					}
				}
				usesText := false
				for _, a := range c.Call.Args {
					if isStringT(a.Type()) {
						usesText = true
					}
					if sl, ok := a.Type().Underlying().(*types.Slice); ok && isStringT(sl.Elem()) {
						usesText = true
					}
				}
				if !usesText {
					continue
				}
				l.Fail(rule, FnName(h), l.Key(rule, FnName(h), "rewrites", cn), p.Pos(c.Pos()), FnName(h)+" passes text through "+cn+" while building the string Unfragment compares: the identity of a cue is its text as it is, and a rewriting (spaces collapsed, characters replaced) makes cues whose texts differ compare equal and merge")
			}
		}
	}
	// the text function reads every run's text
	read := fieldsRead(p, []*ssa.Function{str})
	for _, f := range []string{"Item.Lines", "Line.Items", "LineItem.Text"} {
		if read[f] {
			l.Prove(rule, "Item.String", rule+"|reads|"+f, "", "Item.String reads "+f)
		} else {
			l.Fail(rule, "Item.String", rule+"|reads|"+f, p.Pos(str.Pos()), "Item.String no longer reads "+f+": cues with different text compare equal")
		}
	}
}

// ---- C13: marking order and unconditional clearing (added after seeded changes C13/1, C13/2) -------

// edgesOf: the reference edges ("T.f" with f of type *Style / *Region) a pointer value was loaded from.
func edgesOf(v ssa.Value, seen map[ssa.Value]bool, out strset) {
	if v == nil || seen[v] {
		return
	}
	seen[v] = true
	if t, f, _ := loadedField(v); f != "" {
		if isPtrToNamed(v.Type(), "Style", "Region") {
			out.add(t + "." + f)
			return
		}
	}
	switch x := v.(type) {
	case *ssa.Phi:
		for _, e := range x.Edges {
			edgesOf(e, seen, out)
		}
	case *ssa.Extract:
		edgesOf(x.Tuple, seen, out)
	case *ssa.UnOp:
		edgesOf(x.X, seen, out)
	case *ssa.FieldAddr:
		edgesOf(x.X, seen, out)
	case *ssa.Field:
		edgesOf(x.X, seen, out)
	}
}

// markKind classifies a store into a used-set (map[string]bool): "closure" when the key is the
// ID of an object reached through Style.Style (or taken from another used-set), "direct" when
// reached through any other reference edge, "" when it is not a marking store.
func markKind(mu *ssa.MapUpdate) string {
	mt, ok := mu.Map.Type().Underlying().(*types.Map)
	if !ok {
		return ""
	}
	if !isSetElem(mt.Elem()) {
		return ""
	}
	// key = <ptr>.ID
	if _, f, base := loadedField(mu.Key); f == "ID" && base != nil {
		es := strset{}
		edgesOf(base, map[ssa.Value]bool{}, es)
		if len(es) == 0 {
			return ""
		}
		for e := range es {
			if e != "Style.Style" {
				return "direct"
			}
		}
		return "closure"
	}
	// key ranged from another bool map (copying a closure set into the used set)
	if ex, ok := mu.Key.(*ssa.Extract); ok {
		if nx, ok := ex.Tuple.(*ssa.Next); ok {
			if r, ok := nx.Iter.(*ssa.Range); ok {
				if m2, ok := r.X.Type().Underlying().(*types.Map); ok {
					if isSetElem(m2.Elem()) {
						return "closure"
					}
				}
			}
		}
	}
	return ""
}

// ruleMarkingOrder: inheritance must be closed over after every direct mark — no direct-mark
// site may be reachable from a closure site (else parents of later-marked styles are missed).
func ruleMarkingOrder(p *Prog, l *Ledger, tier string) {
	const rule = "E14.M1b-marking-order"
	fn := anchor(p, l, rule, "Subtitles.Optimize")
	if fn == nil {
		return
	}
	fns := p.Closure([]*ssa.Function{fn})
	// per function: does its own closure contain direct / closure marks?
	kinds := map[*ssa.Function]strset{}
	for _, f := range fns {
		ks := strset{}
		for _, g := range p.Closure([]*ssa.Function{f}) {
			for _, b := range g.Blocks {
				for _, ins := range b.Instrs {
					if mu, ok := ins.(*ssa.MapUpdate); ok {
						if k := markKind(mu); k != "" {
							ks.add(k)
						}
					}
				}
			}
		}
		kinds[f] = ks
	}
	nClosure, nDirect := 0, 0
	for _, f := range fns {
		type site struct {
			ins  ssa.Instruction
			kind string
		}
		var sites []site
		for _, b := range f.Blocks {
			for _, ins := range b.Instrs {
				switch x := ins.(type) {
				case *ssa.MapUpdate:
					if k := markKind(x); k != "" {
						sites = append(sites, site{ins, k})
					}
				case *ssa.Call:
					if sc := x.Call.StaticCallee(); sc != nil && p.inScope(sc) && sc != f {
						for k := range kinds[sc] {
							sites = append(sites, site{ins, k})
						}
					}
				}
			}
		}
		for _, c := range sites {
			if c.kind != "closure" {
				continue
			}
			if _, isMU := c.ins.(*ssa.MapUpdate); isMU {
				nClosure++
			}
			for _, d := range sites {
				if d.kind != "direct" || d.ins == c.ins {
					continue
				}
				if _, isMU := d.ins.(*ssa.MapUpdate); isMU {
					nDirect++
				}
				if instrReaches(c.ins, d.ins) && !(c.ins.Block() == d.ins.Block() && instrDominates(d.ins, c.ins) && !inLoop(c.ins.Block())) {
					l.Fail(rule, FnName(f), l.Key(rule, FnName(f), "order", ""), p.Pos(d.ins.Pos()),
						fmt.Sprintf("%s: a style is marked as used at %s after the parent-style closure at %s has run: the parents of that style are not marked and get deleted although a cue still reaches them through inheritance", FnName(f), p.Pos(d.ins.Pos()), p.Pos(c.ins.Pos())))
				}
			}
		}
	}
	// the sweep of the style table starts only when marking is complete: no store into a used-set is
	// reachable from a delete(…Styles, …) (a single pass that deletes and marks in the same loop
	// removes a parent before the child that keeps it alive has been visited, depending on map order)
	for _, f := range fns {
		var dels, marks []ssa.Instruction
		for _, b := range f.Blocks {
			for _, ins := range b.Instrs {
				switch x := ins.(type) {
				case *ssa.MapUpdate:
					if markKind(x) != "" {
						marks = append(marks, ins)
					}
				case *ssa.Call:
					if bi, ok := x.Call.Value.(*ssa.Builtin); ok && bi.Name() == "delete" {
						if mt, ok := x.Call.Args[0].Type().Underlying().(*types.Map); ok && isPtrToNamed(mt.Elem(), "Style") {
							dels = append(dels, ins)
						}
					}
				}
			}
		}
		for _, d := range dels {
			for _, m := range marks {
				if instrReaches(d, m) {
					l.Fail(rule, FnName(f), l.Key(rule, FnName(f), "sweep-before-marking-done", ""), p.Pos(d.Pos()),
						fmt.Sprintf("%s: a style can be deleted at %s while styles are still being marked as used at %s: a parent style visited before the style that inherits from it is removed although it is needed (which one is visited first depends on map iteration order)", FnName(f), p.Pos(d.Pos()), p.Pos(m.Pos())))
				}
			}
		}
	}
	if nClosure == 0 {
		l.Undecide(rule, "Subtitles.Optimize", rule+"|closure", "", "extraction-below-minimum: no store marking the parents of used styles found (see E14.M1-reference-edges)")
		return
	}
	if l.CountBadRule(rule) == 0 {
		l.Prove(rule, "Subtitles.Optimize", rule, "", "no direct mark (item, run or region reference) can execute after the parent-style closure")
	}
}

func inLoop(b *ssa.BasicBlock) bool {
	for _, x := range b.Parent().Blocks {
		if lp := loopOf(x); lp != nil && lp[b] {
			return true
		}
	}
	return false
}

// ruleUnconditionalClearing: every styling store of RemoveStyling executes for every element —
// it is control-dependent only on loop bounds (or on a nil test of the field being cleared).
func ruleUnconditionalClearing(p *Prog, l *Ledger, tier string) {
	const rule = "E14.M2b-unconditional-clearing"
	fn := anchor(p, l, rule, "Subtitles.RemoveStyling")
	if fn == nil {
		return
	}
	a := NewNilAnalysis(p)
	n := 0
	for _, f := range p.Closure([]*ssa.Function{fn}) {
		for _, b := range f.Blocks {
			for _, ins := range b.Instrs {
				st, ok := ins.(*ssa.Store)
				if !ok {
					continue
				}
				t, fld := fieldOfAddr(st.Addr)
				if fld == "" || !(t == "Subtitles" || t == "Item" || t == "Line" || t == "LineItem") {
					continue
				}
				n++
				key := l.Key(rule, FnName(f), "clear", t+"."+fld)
				bad := ""
				for _, dc := range dominatingConds(b) {
					if isLoopBoundCond(dc.cond) || isLenOfItemsCond(dc.cond) {
						continue
					}
					// a nil test of the very location being cleared
					if bo, ok := dc.cond.(*ssa.BinOp); ok && (isNilConst(bo.X) || isNilConst(bo.Y)) {
						x := bo.X
						if isNilConst(bo.X) {
							x = bo.Y
						}
						if a.key(x) == a.loc(st.Addr) {
							continue
						}
					}
					bad = p.Pos(dc.cond.Pos())
					if bad == "-" {
						bad = "a data-dependent condition"
					}
				}
				if bad == "" {
					l.Prove(rule, FnName(f), key, p.Pos(st.Pos()), t+"."+fld+" is cleared for every element (the store depends on loop bounds only)")
				} else {
					l.Fail(rule, FnName(f), key, p.Pos(st.Pos()), fmt.Sprintf("%s: %s.%s is cleared only when the condition at %s holds: some cues or runs keep their styling", FnName(f), t, fld, bad))
				}
			}
		}
	}
	l.Min(rule, n, 7)
}

// isLoopBoundCond: the comparison of a range / counted loop (index against a length or Next's ok).
func isLoopBoundCond(c ssa.Value) bool {
	switch x := c.(type) {
	case *ssa.BinOp:
		if x.Op != token.LSS && x.Op != token.LEQ && x.Op != token.GTR && x.Op != token.GEQ && x.Op != token.NEQ {
			return false
		}
		for _, side := range []ssa.Value{x.X, x.Y} {
			base, _ := linear(side)
			if call, ok := base.(*ssa.Call); ok {
				if bi, ok := call.Call.Value.(*ssa.Builtin); ok && bi.Name() == "len" {
					return true
				}
			}
		}
		// a range over an array of fixed size: rangeindex < constant
		for _, pr := range [][2]ssa.Value{{x.X, x.Y}, {x.Y, x.X}} {
			base, _ := linear(pr[0])
			if ph, ok := base.(*ssa.Phi); ok && ph.Comment == "rangeindex" {
				if _, isC := constInt(pr[1]); isC {
					return true
				}
			}
		}
	case *ssa.Extract:
		_, ok := x.Tuple.(*ssa.Next)
		return ok && x.Index == 0
	}
	return false
}

// ---- E13-I4 full scan (added after seeded change C09/1) -------------------------------------------
// A transformation that must treat every cue alike visits every element: each of its loops is
// left only through its bound test (no data-dependent break, no data term in the loop condition).
func ruleFullScan(names ...string) func(p *Prog, l *Ledger, tier string) {
	return func(p *Prog, l *Ledger, tier string) {
		const rule = "E13.I4-full-scan"
		n := 0
		for _, name := range names {
			fn := anchor(p, l, rule, name)
			if fn == nil {
				continue
			}
			// the loops of the operation itself, and the loops over a cue list (index against len(….Items)) of the
			// library helpers it calls (a visitor the per-cue work was handed to)
			var loops []*loopInfo
			loops = append(loops, loopsOf(fn)...)
			for _, h := range p.Helpers(fn) {
				if h == fn || fnPkg(h) != p.LibSSA {
					continue
				}
				for _, li := range loopsOf(h) {
					if iff, ok := li.header.Instrs[len(li.header.Instrs)-1].(*ssa.If); ok && isLoopBoundCond(iff.Cond) && loopOverItems(iff.Cond) {
						loops = append(loops, li)
					}
				}
			}
			for _, li := range loops {
				n++
				key := l.Key(rule, name, "loop", loopDesc(li))
				bad := ""
				for b := range li.blocks {
					for i, s := range b.Succs {
						if li.blocks[s] {
							continue
						}
						iff, ok := b.Instrs[len(b.Instrs)-1].(*ssa.If)
						if !ok {
							continue
						}
						_ = i
						if !isLoopBoundCond(iff.Cond) {
							bad = p.Pos(iff.Cond.Pos())
							if bad == "-" {
								bad = blockPos(p, b)
							}
						}
					}
					if _, ok := b.Instrs[len(b.Instrs)-1].(*ssa.Return); ok {
						bad = blockPos(p, b)
					}
				}
				if bad == "" {
					l.Prove(rule, name, key, blockPos(p, li.header), "the loop is left only through its bound test: every element is visited")
				} else {
					l.Fail(rule, name, key, blockPos(p, li.header), fmt.Sprintf("%s: the loop at %s can stop early on a data-dependent condition (%s): cues after that point are not shifted / clamped / removed like the others", name, blockPos(p, li.header), bad))
				}
			}
		}
		l.Min(rule, n, len(names))
	}
}

// loopOverItems: the bound of the loop is the length of a list loaded from a field called Items.
func loopOverItems(c ssa.Value) bool {
	bo, ok := c.(*ssa.BinOp)
	if !ok {
		return false
	}
	for _, side := range []ssa.Value{bo.X, bo.Y} {
		base, _ := linear(side)
		if call, ok := base.(*ssa.Call); ok {
			if bi, ok := call.Call.Value.(*ssa.Builtin); ok && bi.Name() == "len" {
				if _, f, _ := loadedField(call.Call.Args[0]); f == "Items" {
					return true
				}
			}
		}
	}
	return false
}

// ---- E13-I5 complementary exit (added after seeded change C11/3) -----------------------------------
// In Unfragment the merge test and the early-exit test compare the same pair (EndAt of the kept
// cue, StartAt of the candidate); a pair that satisfies the merge relation must never satisfy the
// exit relation. Relations are finite sets over {<, =, >}.
func relSet(op token.Token, swapped, taken bool) map[byte]bool {
	sets := map[token.Token]string{token.LSS: "<", token.LEQ: "<=", token.GTR: ">", token.GEQ: ">=", token.EQL: "=", token.NEQ: "<>"}
	s, ok := sets[op]
	if !ok {
		return nil
	}
	out := map[byte]bool{}
	for i := 0; i < len(s); i++ {
		out[s[i]] = true
	}
	if swapped {
		sw := map[byte]bool{}
		for c := range out {
			switch c {
			case '<':
				sw['>'] = true
			case '>':
				sw['<'] = true
			default:
				sw[c] = true
			}
		}
		out = sw
	}
	if !taken {
		co := map[byte]bool{}
		for _, c := range []byte{'<', '=', '>'} {
			if !out[c] {
				co[c] = true
			}
		}
		out = co
	}
	return out
}

func ruleComplementaryExit(p *Prog, l *Ledger, tier string) {
	const rule = "E13.I5-complementary-exit"
	fn := anchor(p, l, rule, "Subtitles.Unfragment")
	if fn == nil {
		return
	}
	a := NewNilAnalysis(p)
	dels := inPlaceDeletes(fn)
	if len(dels) == 0 {
		l.Prove(rule, "Subtitles.Unfragment", rule+"|idiom-absent", p.Pos(fn.Pos()), "idiom-absent: no in-place deletion in Unfragment")
		return
	}
	type cmp struct {
		iff     *ssa.If
		op      token.Token
		swapped bool // operands are (StartAt, EndAt) instead of (EndAt, StartAt)
		pair    string
	}
	var cmps []cmp
	for _, b := range fn.Blocks {
		iff, ok := b.Instrs[len(b.Instrs)-1].(*ssa.If)
		if !ok {
			continue
		}
		bo, ok := iff.Cond.(*ssa.BinOp)
		if !ok {
			continue
		}
		_, fx, bx := loadedField(bo.X)
		_, fy, by := loadedField(bo.Y)
		if bx == nil || by == nil {
			continue
		}
		switch {
		case fx == "EndAt" && fy == "StartAt":
			cmps = append(cmps, cmp{iff, bo.Op, false, a.key(bx) + "|" + a.key(by)})
		case fx == "StartAt" && fy == "EndAt":
			cmps = append(cmps, cmp{iff, bo.Op, true, a.key(by) + "|" + a.key(bx)})
		}
	}
	for _, d := range dels {
		key := l.Key(rule, "Subtitles.Unfragment", "merge-vs-exit", "")
		pos := p.Pos(d.st.Pos())
		// relation known on the path to the merge
		merge := map[byte]bool{'<': true, '=': true, '>': true}
		pair := ""
		cmpOf := map[ssa.Value]cmp{}
		for _, c := range cmps {
			cmpOf[c.iff.Cond] = c
		}
		// comparisons that sit under a short-circuit phi are not If conditions themselves
		for _, bb := range fn.Blocks {
			for _, ins := range bb.Instrs {
				bo, ok := ins.(*ssa.BinOp)
				if !ok {
					continue
				}
				if _, done := cmpOf[bo]; done {
					continue
				}
				_, fx, bx := loadedField(bo.X)
				_, fy, by := loadedField(bo.Y)
				if bx == nil || by == nil {
					continue
				}
				switch {
				case fx == "EndAt" && fy == "StartAt":
					cmpOf[bo] = cmp{nil, bo.Op, false, a.key(bx) + "|" + a.key(by)}
				case fx == "StartAt" && fy == "EndAt":
					cmpOf[bo] = cmp{nil, bo.Op, true, a.key(by) + "|" + a.key(bx)}
				}
			}
		}
		for _, dc := range dominatingConds(d.st.Block()) {
			c, ok := cmpOf[dc.cond]
			if !ok {
				continue
			}
			rs := relSet(c.op, c.swapped, dc.taken)
			for k := range merge {
				if !rs[k] {
					delete(merge, k)
				}
			}
			pair = c.pair
		}
		if pair == "" {
			l.Undecide(rule, "Subtitles.Unfragment", key, pos, "the merge is not guarded by a comparison of EndAt with StartAt")
			continue
		}
		// exits of the loop containing the merge, taken on a comparison of the same pair
		ph, _ := d.idx.(*ssa.Phi)
		var lp map[*ssa.BasicBlock]bool
		if ph != nil {
			lp = loopOf(ph.Block())
		}
		nExit := 0
		ok := true
		why := ""
		for _, c := range cmps {
			if c.pair != pair || lp == nil || !lp[c.iff.Block()] {
				continue
			}
			for si, s := range c.iff.Block().Succs {
				if lp[s] {
					continue
				}
				nExit++
				exit := relSet(c.op, c.swapped, si == 0)
				for k := range exit {
					if merge[k] {
						ok = false
						why = fmt.Sprintf("the scan is abandoned at %s when EndAt %c StartAt, a relation under which the two cues touch or overlap and must be merged", p.Pos(c.iff.Cond.Pos()), k)
					}
				}
			}
		}
		// the exit test must see the extended end: when the loop stores into Item.EndAt (the merge
		// lengthens the kept cue), an EndAt operand of the exit test loaded outside that loop is stale
		if ok && lp != nil {
			storesEnd := false
			for b := range lp {
				for _, ins := range b.Instrs {
					if st, isSt := ins.(*ssa.Store); isSt {
						if t, f := fieldOfAddr(st.Addr); t == "Item" && f == "EndAt" {
							storesEnd = true
						}
					}
				}
			}
			for _, c := range cmps {
				if c.pair != pair || !lp[c.iff.Block()] || !storesEnd {
					continue
				}
				bo := c.iff.Cond.(*ssa.BinOp)
				for _, opnd := range []ssa.Value{bo.X, bo.Y} {
					if _, f, _ := loadedField(opnd); f == "EndAt" {
						if ins, isIns := opnd.(ssa.Instruction); isIns && !lp[ins.Block()] {
							ok = false
							why = fmt.Sprintf("the early-exit test at %s compares an EndAt that was loaded before the scan loop (at %s), while the loop extends that cue's EndAt when it merges: after a merge the test still sees the old end and abandons the scan although later cues touch the extended cue", p.Pos(bo.Pos()), p.Pos(opnd.Pos()))
						}
					}
				}
			}
		}
		switch {
		case !ok:
			l.Fail(rule, "Subtitles.Unfragment", key, pos, "Subtitles.Unfragment: "+why)
		case nExit == 0:
			l.Prove(rule, "Subtitles.Unfragment", key, pos, "no early exit on the merge pair: the scan visits every later cue")
		default:
			l.Prove(rule, "Subtitles.Unfragment", key, pos, fmt.Sprintf("merge relation %s and exit relation are disjoint over {<,=,>}", relStr(merge)))
		}
	}
}

func relStr(m map[byte]bool) string {
	s := "{"
	for _, c := range []byte{'<', '=', '>'} {
		if m[c] {
			s += string(c)
		}
	}
	return s + "}"
}

// builderJoin: f builds its result with a strings.Builder in one loop over the elements: every trip
// writes the element's string (a WriteString whose block dominates the back edges), the function
// returns that builder's String(), and – when a separator is required – a non-empty constant is
// written on every trip but the first, decided by the loop's own counter (not by what has been
// accumulated so far).
func builderJoin(f *ssa.Function, needSep bool) (bool, string) {
	isBuilderCall := func(ins ssa.Instruction, name string) (*ssa.Call, bool) {
		c, ok := ins.(*ssa.Call)
		if !ok {
			return nil, false
		}
		sc := c.Call.StaticCallee()
		return c, sc != nil && sc.String() == "(*strings.Builder)."+name
	}
	// every line followed by the separator, and the one written after the last line cut off at the end:
	// return strings.TrimSuffix(b.String(), sep)
	if ok, what := builderJoinTrimSuffix(f, needSep, isBuilderCall); ok {
		return true, what
	}
	var ret *ssa.Call
	for _, b := range f.Blocks {
		r, ok := b.Instrs[len(b.Instrs)-1].(*ssa.Return)
		if !ok {
			continue
		}
		if len(r.Results) != 1 {
			return false, ""
		}
		c, ok := isBuilderCall(instrOf(r.Results[0]), "String")
		if !ok && singleElementFastPath(r) {
			continue // a list of one element is its only element, whatever the separator
		}
		if !ok || ret != nil {
			return false, ""
		}
		ret = c
	}
	if ret == nil {
		return false, ""
	}
	bld := ret.Call.Args[0]
	loops := loopsOf(f)
	// a helper that receives the builder and writes every element into it
	passesTo := func(ins ssa.Instruction) *ssa.Function {
		c, ok := ins.(*ssa.Call)
		if !ok {
			return nil
		}
		sc := c.Call.StaticCallee()
		if sc == nil || len(sc.Blocks) == 0 || sc.Pkg == nil || sc.Pkg.Pkg.Path() != LibPath {
			return nil
		}
		for k, a := range c.Call.Args {
			if a == bld && k < len(sc.Params) && builderFilledBy(sc, sc.Params[k]) {
				return sc
			}
		}
		return nil
	}
	if len(loops) == 0 && !needSep {
		// no loop of its own: the whole text is written by one such helper on the way to the return
		for _, b := range f.Blocks {
			for _, ins := range b.Instrs {
				if h := passesTo(ins); h != nil && b.Dominates(ret.Block()) {
					return true, "hands its strings.Builder to " + FnName(h) + ", which writes every element into it"
				}
			}
		}
		return false, ""
	}
	// loops that never touch the builder (measuring the text first) play no part
	var writing []*loopInfo
	for _, lp := range loops {
		touches := false
		for b := range lp.blocks {
			for _, ins := range b.Instrs {
				if c, ok := ins.(*ssa.Call); ok {
					for _, a := range c.Call.Args {
						if a == bld {
							touches = true
						}
					}
				}
			}
		}
		if touches {
			writing = append(writing, lp)
		}
	}
	if len(writing) != 1 {
		return false, ""
	}
	li := writing[0]
	domLatches := func(b *ssa.BasicBlock) bool {
		for _, lt := range li.latch {
			if !b.Dominates(lt) {
				return false
			}
		}
		return true
	}
	elem, sep := false, false
	for b := range li.blocks {
		for _, ins := range b.Instrs {
			if h := passesTo(ins); h != nil {
				if !domLatches(b) {
					return false, ""
				}
				elem = true
				continue
			}
			c, ok := isBuilderCall(ins, "WriteString")
			if !ok || c.Call.Args[0] != bld {
				continue
			}
			if cs, isC := constStr(c.Call.Args[1]); isC {
				if cs == "" {
					continue
				}
				d := b.Idom()
				if d == nil || !li.blocks[d] || !domLatches(d) {
					return false, ""
				}
				ft := firstTripSucc(li, d)
				if ft < 0 || len(d.Succs) != 2 || d.Succs[1-ft] != b || len(b.Preds) != 1 {
					return false, ""
				}
				sep = true
				continue
			}
			if !domLatches(b) {
				return false, ""
			}
			elem = true
		}
	}
	if !elem || (needSep && !sep) {
		return false, ""
	}
	if needSep {
		return true, "writes every element into a strings.Builder, with a constant separator before each but the first (decided by the loop counter)"
	}
	return true, "writes every element into a strings.Builder"
}

// singleElementFastPath: the return hands back (the text of) element 0 of a list under a dominating test that the
// list has exactly one element.
func singleElementFastPath(r *ssa.Return) bool {
	var elem0 func(v ssa.Value, depth int) string
	elem0 = func(v ssa.Value, depth int) string {
		if v == nil || depth > 5 {
			return ""
		}
		switch x := v.(type) {
		case *ssa.IndexAddr:
			if c, ok := constInt(x.Index); ok && c == 0 {
				if u, ok := x.X.(*ssa.UnOp); ok && u.Op == token.MUL {
					return cellPath(u.X, 0)
				}
			}
			return ""
		case *ssa.UnOp:
			return elem0(x.X, depth+1)
		case *ssa.FieldAddr:
			return elem0(x.X, depth+1)
		case *ssa.Field:
			return elem0(x.X, depth+1)
		case *ssa.Call:
			if len(x.Call.Args) == 1 && !x.Call.IsInvoke() {
				return elem0(x.Call.Args[0], depth+1)
			}
		}
		return ""
	}
	list := elem0(r.Results[0], 0)
	if list == "" {
		return false
	}
	for _, dc := range dominatingConds(r.Block()) {
		bo, ok := dc.cond.(*ssa.BinOp)
		if !ok || bo.Op != token.EQL || !dc.taken {
			continue
		}
		if one, ok := constInt(bo.Y); !ok || one != 1 {
			continue
		}
		c, ok := bo.X.(*ssa.Call)
		if !ok {
			continue
		}
		if bi, ok := c.Call.Value.(*ssa.Builtin); !ok || bi.Name() != "len" {
			continue
		}
		if u, ok := c.Call.Args[0].(*ssa.UnOp); ok && u.Op == token.MUL && cellPath(u.X, 0) == list {
			return true
		}
	}
	return false
}

// builderFilledBy: h has one loop, and on every trip writes a non-constant string into the builder it
// received as parameter bp (and writes nothing else into it).
func builderFilledBy(h *ssa.Function, bp *ssa.Parameter) bool {
	loops := loopsOf(h)
	if len(loops) != 1 {
		return false
	}
	li := loops[0]
	ok := false
	for _, b := range h.Blocks {
		for _, ins := range b.Instrs {
			c, isCall := ins.(*ssa.Call)
			if !isCall {
				continue
			}
			sc := c.Call.StaticCallee()
			if sc == nil || sc.String() != "(*strings.Builder).WriteString" || c.Call.Args[0] != ssa.Value(bp) {
				continue
			}
			if _, isC := constStr(c.Call.Args[1]); isC {
				return false // a separator of its own: not analysed here
			}
			if !li.blocks[b] {
				return false
			}
			for _, lt := range li.latch {
				if !b.Dominates(lt) {
					return false
				}
			}
			ok = true
		}
	}
	return ok
}

// isSetElem: the element type of a map used as a set: bool or struct{}.
func isSetElem(t types.Type) bool {
	if b, ok := t.Underlying().(*types.Basic); ok && b.Kind() == types.Bool {
		return true
	}
	if st, ok := t.Underlying().(*types.Struct); ok && st.NumFields() == 0 {
		return true
	}
	// a small bit mask per key (marks |= used / inherited): membership is "some bit set"
	if b, ok := t.Underlying().(*types.Basic); ok {
		switch b.Kind() {
		case types.Uint8, types.Uint16, types.Uint32, types.Uint, types.Int, types.Int8:
			return true
		}
	}
	return false
}

// keptWithoutMapUpdate: lk looks a cue's text up in a map of kept cues. Returns an append that keeps a cue (the value
// the map is updated with elsewhere) reachable within one trip of the enclosing loop without passing any update of
// that map, or nil.
func keptWithoutMapUpdate(lk *ssa.Lookup) ssa.Instruction {
	fn := lk.Parent()
	refs := lk.X.Referrers()
	if refs == nil {
		return nil
	}
	updBlocks := map[*ssa.BasicBlock]bool{}
	vals := map[ssa.Value]bool{}
	for _, r := range *refs {
		if mu, ok := r.(*ssa.MapUpdate); ok {
			updBlocks[mu.Block()] = true
			vals[mu.Value] = true
		}
	}
	if len(vals) == 0 {
		return nil
	}
	var li *loopInfo
	for _, l2 := range loopsOf(fn) {
		if l2.blocks[lk.Block()] && (li == nil || len(l2.blocks) < len(li.blocks)) {
			li = l2
		}
	}
	if li == nil {
		return nil
	}
	for b := range li.blocks {
		for _, ins := range b.Instrs {
			c, ok := ins.(*ssa.Call)
			if !ok {
				continue
			}
			bi, ok := c.Call.Value.(*ssa.Builtin)
			if !ok || bi.Name() != "append" {
				continue
			}
			keeps := false
			if sl, ok := c.Call.Args[1].(*ssa.Slice); ok {
				if al, ok := sl.X.(*ssa.Alloc); ok {
					for _, r := range *al.Referrers() {
						if ia, ok := r.(*ssa.IndexAddr); ok {
							for _, r2 := range *ia.Referrers() {
								if st, ok := r2.(*ssa.Store); ok && vals[st.Val] {
									keeps = true
								}
							}
						}
					}
				}
			}
			if !keeps {
				continue
			}
			// a way from the loop header to b that avoids every update of the map
			seen := map[*ssa.BasicBlock]bool{}
			var dfs func(x *ssa.BasicBlock) bool
			dfs = func(x *ssa.BasicBlock) bool {
				if seen[x] || !li.blocks[x] {
					return false
				}
				seen[x] = true
				if updBlocks[x] {
					// the update may come after the append in the same block
					if x == b {
						for _, i2 := range x.Instrs {
							if i2 == ssa.Instruction(c) {
								return true
							}
							if mu, ok := i2.(*ssa.MapUpdate); ok && mu.Map == lk.X {
								return false
							}
						}
					}
					return false
				}
				if x == b {
					return true
				}
				for _, sc := range x.Succs {
					if sc != li.header && dfs(sc) {
						return true
					}
				}
				return false
			}
			if dfs(li.header) {
				return c
			}
		}
	}
	return nil
}

// builderJoinTrimSuffix: for each element the function writes the element (directly, in a nested loop over its parts, or
// through a helper) and then the constant separator, on every trip; it returns strings.TrimSuffix(b.String(), sep) with
// the same separator. That is strings.Join(elements, sep): with no element the builder is empty, otherwise it holds the
// join followed by one separator, and TrimSuffix removes exactly that one.
func builderJoinTrimSuffix(f *ssa.Function, needSep bool, isBuilderCall func(ssa.Instruction, string) (*ssa.Call, bool)) (bool, string) {
	if !needSep {
		return false, ""
	}
	var trim *ssa.Call
	n := 0
	for _, b := range f.Blocks {
		r, ok := b.Instrs[len(b.Instrs)-1].(*ssa.Return)
		if !ok {
			continue
		}
		n++
		if len(r.Results) != 1 {
			return false, ""
		}
		c, ok := r.Results[0].(*ssa.Call)
		if !ok || calleeName(&c.Call) != "strings.TrimSuffix" {
			return false, ""
		}
		trim = c
	}
	if n != 1 || trim == nil {
		return false, ""
	}
	sep, isC := constStr(trim.Call.Args[1])
	if !isC || sep == "" {
		return false, ""
	}
	str, ok := isBuilderCall(instrOf(trim.Call.Args[0]), "String")
	if !ok {
		return false, ""
	}
	bld := str.Call.Args[0]
	// the loop in which the separator is written
	var outer *loopInfo
	var sepBlock *ssa.BasicBlock
	consts := 0
	for _, b := range f.Blocks {
		for _, ins := range b.Instrs {
			c, ok := isBuilderCall(ins, "WriteString")
			if !ok || c.Call.Args[0] != bld {
				continue
			}
			if cs, isC := constStr(c.Call.Args[1]); isC {
				if cs == "" {
					continue
				}
				if cs != sep {
					return false, ""
				}
				consts++
				sepBlock = b
			}
		}
	}
	if consts != 1 {
		return false, ""
	}
	for _, li := range loopsOf(f) {
		if li.blocks[sepBlock] && (outer == nil || len(li.blocks) < len(outer.blocks)) {
			outer = li
		}
	}
	if outer == nil {
		return false, ""
	}
	for _, lt := range outer.latch {
		if !sepBlock.Dominates(lt) {
			return false, "" // some line is not followed by the separator
		}
	}
	// the element is written inside the same trip, before the separator
	elem := false
	for b := range outer.blocks {
		for _, ins := range b.Instrs {
			c, ok := ins.(*ssa.Call)
			if !ok {
				continue
			}
			uses := false
			for _, a := range c.Call.Args {
				if a == bld {
					uses = true
				}
			}
			if !uses {
				continue
			}
			if wc, isW := isBuilderCall(ins, "WriteString"); isW {
				if _, isConst := constStr(wc.Call.Args[1]); isConst {
					continue
				}
			}
			elem = true
		}
	}
	if !elem {
		return false, ""
	}
	return true, "writes every line followed by the separator and returns strings.TrimSuffix(b.String(), sep) with that separator: strings.Join(lines, sep)"
}

// emptyListFastPath: r returns "" under a dominating test len(x) == 0: the join of no element.
func emptyListFastPath(r *ssa.Return) bool {
	if cs, ok := constStr(r.Results[0]); !ok || cs != "" {
		return false
	}
	for _, dc := range dominatingConds(r.Block()) {
		bo, ok := dc.cond.(*ssa.BinOp)
		if !ok || bo.Op != token.EQL || !dc.taken {
			continue
		}
		if z, ok := constInt(bo.Y); !ok || z != 0 {
			continue
		}
		if c, ok := bo.X.(*ssa.Call); ok {
			if bi, ok := c.Call.Value.(*ssa.Builtin); ok && bi.Name() == "len" {
				return true
			}
		}
	}
	return false
}

// byteAppendConcat: f returns string(b) where b starts as an empty []byte (make([]byte, 0, n)) and every trip of
// one loop over the elements does b = append(b, text...) in a block that dominates the back edges: the concatenation
// of the texts, what strings.Join(texts, "") gives.  Returns of "" for no element and of the only element's text
// (fast paths) are admitted next to it.
func byteAppendConcat(f *ssa.Function) (bool, string) {
	var conv *ssa.Convert
	for _, b := range f.Blocks {
		r, ok := b.Instrs[len(b.Instrs)-1].(*ssa.Return)
		if !ok {
			continue
		}
		if len(r.Results) != 1 {
			return false, ""
		}
		cv, ok := r.Results[0].(*ssa.Convert)
		if !ok {
			if singleElementFastPath(r) || emptyListFastPath(r) {
				continue
			}
			return false, ""
		}
		if conv != nil || !isStringT(cv.Type()) {
			return false, ""
		}
		conv = cv
	}
	if conv == nil {
		return false, ""
	}
	ph, ok := conv.X.(*ssa.Phi)
	if !ok {
		return false, ""
	}
	var li *loopInfo
	for _, lp := range loopsOf(f) {
		if lp.header == ph.Block() {
			li = lp
		}
	}
	if li == nil {
		return false, ""
	}
	nInit, nBack := 0, 0
	for k, e := range ph.Edges {
		pred := ph.Block().Preds[k]
		if li.blocks[pred] {
			c, ok := e.(*ssa.Call)
			if !ok {
				return false, ""
			}
			bi, ok := c.Call.Value.(*ssa.Builtin)
			if !ok || bi.Name() != "append" || len(c.Call.Args) != 2 || c.Call.Args[0] != ssa.Value(ph) || !isStringT(c.Call.Args[1].Type()) {
				return false, ""
			}
			for _, lt := range li.latch {
				if !c.Block().Dominates(lt) {
					return false, ""
				}
			}
			nBack++
			continue
		}
		mk, ok := e.(*ssa.MakeSlice)
		if !ok {
			return false, ""
		}
		if z, ok := constInt(mk.Len); !ok || z != 0 {
			return false, ""
		}
		nInit++
	}
	if nInit == 0 || nBack == 0 {
		return false, ""
	}
	return true, "appends the text of every element to an empty byte slice in one loop and returns it as a string: the concatenation strings.Join(texts, \"\") gives"
}
