package chk

import (
	"go/token"

	"golang.org/x/tools/go/ssa"
)

// Grow-only local slice cell.
//
// A local slice variable that a closure captures lives in a heap cell; its length is then a fact
// about memory, not about a register.  For a load  t = *cell  the lower bound  len(t) ≥ n  holds when
//
//	(a) the cell does not escape: it is only loaded, stored, and bound as a free variable of
//	    closures of the same function, which in turn only load and store it;
//	(b) every store to the cell, in the function and in those closures, stores
//	    append(<load of the cell>, …), i.e. never shortens it — except stores in the function
//	    from which the load cannot be reached (the final trimming after the loops);
//	(c) a store  *cell = append(*cell, x…)  with len(x) ≥ n dominates the load.
func (g *cgraph) growCellLenLo(ld *ssa.UnOp) int64 {
	if ld.Op != token.MUL {
		return 0
	}
	cell, ok := ld.X.(*ssa.Alloc)
	if !ok || !cell.Heap {
		return 0
	}
	fn := ld.Parent()
	if fn == nil || cell.Parent() != fn {
		return 0
	}
	// the names of the cell: the Alloc and the free variables bound to it
	names := map[ssa.Value]bool{cell: true}
	for _, r := range *cell.Referrers() {
		switch x := r.(type) {
		case *ssa.Store:
			if x.Addr != ssa.Value(cell) {
				return 0 // the address is stored somewhere
			}
		case *ssa.UnOp:
		case *ssa.MakeClosure:
			cf := x.Fn.(*ssa.Function)
			for i, b := range x.Bindings {
				if b == ssa.Value(cell) {
					names[cf.FreeVars[i]] = true
				}
			}
		case *ssa.DebugRef:
		default:
			return 0
		}
	}
	isLoadOfCell := func(v ssa.Value) bool {
		u, ok := v.(*ssa.UnOp)
		return ok && u.Op == token.MUL && names[u.X]
	}
	grow := func(st *ssa.Store) (ssa.Value, bool) { // appended argument
		c, ok := st.Val.(*ssa.Call)
		if !ok {
			return nil, false
		}
		if bi, ok := c.Call.Value.(*ssa.Builtin); !ok || bi.Name() != "append" || len(c.Call.Args) != 2 || !isLoadOfCell(c.Call.Args[0]) {
			return nil, false
		}
		return c.Call.Args[1], true
	}
	best := int64(0)
	for name := range names {
		for _, r := range *name.Referrers() {
			switch x := r.(type) {
			case *ssa.Store:
				if x.Addr != name {
					return 0
				}
				arg, ok := grow(x)
				if !ok {
					// a shortening store: only harmless when the load cannot come after it
					if x.Parent() != fn {
						return 0
					}
					if x.Block() == ld.Block() {
						if instrIndex(x) < instrIndex(ld) {
							return 0
						}
						if reachableFrom(x.Block())[ld.Block()] {
							return 0
						}
					} else if reachableFrom(x.Block())[ld.Block()] {
						return 0
					}
					continue
				}
				if x.Parent() == fn && (x.Block() != ld.Block() && x.Block().Dominates(ld.Block()) || x.Block() == ld.Block() && instrIndex(x) < instrIndex(ld)) {
					sb := &cgraph{a: g.a, fn: fn, edges: map[string]map[string]int64{}, ne: map[string]bool{}, seen: map[string]bool{}, vals: map[string]ssa.Value{}, alias: map[string]string{}}
					sb.defineLen(arg, 3)
					if lo, _, ok := sb.boundsLo("len(" + g.a.regKey(arg) + ")"); ok && lo > best {
						best = lo
					}
				}
			case *ssa.UnOp, *ssa.MakeClosure, *ssa.DebugRef:
			default:
				if _, isFV := name.(*ssa.FreeVar); isFV {
					return 0 // the closure passes the cell's address on
				}
			}
		}
	}
	return best
}
