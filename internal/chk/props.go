package chk

var commonAssumptions = []string{
	"P0: receivers and direct arguments of exported functions are non-nil",
	"P1: elements of model slices and values of model maps are non-nil; map keys equal the element's ID",
	"P2: documented contracts of the standard library, go-astikit, go-astits, x/net/html, x/text as tabulated in internal/chk/contracts.go",
	"go/types, go/ssa and the VTA call graph of golang.org/x/tools v0.29.0 are a faithful model of the Go program",
}

func init() {
	register(&PropSpec{ID: "C19",
		Explanation: "Decides, from the SSA form of /repo, that (a) no writer or exported formatting helper writes through memory reachable from the cue list or a package-level variable (interprocedural mod-sets with root classification), (b) every range over a map in the writers' call-graph closure carries only order-insensitive state (map inserts, integer sums, appends that are sorted before any use), (c) no clock/random/environment source other than the injectable Now and no address-printing fmt operand is reachable from a writer. Together these imply the output bytes are a function of the cue list and Now. Not decided: determinism of encoding/xml and fmt themselves.",
		Assumptions: commonAssumptions,
		Rules:       []Rule{{"writer-purity", ruleWriterPurity}, {"maporder", ruleMapOrder}, {"nondet", ruleWriterNondet}, {"positive-control", rulePositiveControls("param-write", "maporder", "nondet")}},
	})
	register(&PropSpec{ID: "C20",
		Explanation: "Decides that outside the package initialiser no function of the library stores to a package-level variable, to memory reachable from one, or to unknown memory (interprocedural effect analysis over all 153 functions, incl. the per-call teletext decoder which must copy the shared G0 table before patching it), that there is no go/select statement and no unsafe import, and lists every global read with its classification. Independent calls then share only immutable tables, documented goroutine-safe library objects (regexp, Replacer, BiMap, log) and the injectable clock. Not decided: races inside dependencies.",
		Assumptions: commonAssumptions,
		Rules:       []Rule{{"no-global-write", ruleNoSharedState}, {"zero-concurrency", ruleZeroConcurrency}, {"positive-control", rulePositiveControls("global-write", "go-stmt")}},
	})
	register(&PropSpec{ID: "C16",
		Explanation: "Structural agreement clauses of the timestamp codec, per format: the separator and digit count the writer wrapper passes to formatDuration and the separators / millisecond scale the reader wrapper passes to parseDuration are extracted as constants and must agree (writer separator among the reader's, scale 3, 2 or 3 digits); each codec entry point reaches only its own wrappers; the WebVTT inline-timestamp pattern accepts the writer's shape; STL formatter and parser take the frame rate from the same gsiBlock field. Not decided: truncation, field ranges, padding for every value, monotonicity, self-inverse per value, the 30 fps frame loss — statements about floor/divide on 8.6e7 values that need evaluation or a solver.",
		Assumptions: commonAssumptions,
		Rules:       []Rule{{"timestamp-format", ruleDurationFormats()}, {"exact-truncation", ruleExactTruncation(8)}, {"frame-rounding", ruleSTLRounding}},
	})
	register(&PropSpec{ID: "C17",
		Explanation: "Decides that (R8.1) every io.Reader parameter of the library flows only into consumers documented to loop over short reads (bufio.Scanner/Reader, xml.Decoder, astits.Demuxer, io.ReadFull/ReadAtLeast/ReadAll) or into in-package functions that do the same, that no method Read([]byte) is called directly anywhere in the package (zero-rule with a positive control), and (R8.2) by enumerating all paths of every bufio.SplitFunc installed in the package with an interval domain over len(data), the terminator index and atEOF, that whenever a length-guarded look-ahead byte has not arrived and atEOF is not known true the function returns (0, nil, nil), and that every returned token advances. Given these, every byte the package interprets comes from a consumer whose output is independent of read sizes. Not decided: that bufio, encoding/xml and astits honour that documentation.",
		Assumptions: commonAssumptions,
		Rules:       []Rule{{"reader-flow", ruleReaderFlow}, {"split-lookahead", ruleSplitFunc}, {"positive-control", rulePositiveControls("raw-read")}},
	})
	register(&PropSpec{ID: "C18",
		Explanation: "Decides on the SSA control-flow graphs of the reader/writer closures and of package main that (R7.1) the error of every I/O error source (Read/Write invokes, io.ReadFull, xml Decoder/Encoder, astits demuxer, os.Open/Create, scanner.Err, and every in-package function that transitively returns such an error) is tested or returned, and that from its non-nil edge every path ends in a return carrying a provably non-nil error (or log.Fatal in main) without rejoining normal flow, except for a frozen list of end-of-input sentinel conversions; (R7.2) after bufio.Scanner.Scan has returned false no possibly-nil-error return is reachable without consulting Err() (read failure and ErrTooLong are delivered only there); (R7.3) buffered sinks are flushed on success paths. Not decided: Close errors; that a short write is accompanied by an error (io.Writer contract).",
		Assumptions: commonAssumptions,
		Rules:       []Rule{{"propagation", ruleErrPropagation}, {"scanner-err", ruleScannerErr}, {"flush", ruleFlush}},
	})
	register(&PropSpec{ID: "C08",
		Explanation: "Totality, panic classes raised by the package's own code: over the call-graph closure of the six readers, Open/OpenFile, the five writers, Write and the exported formatting helpers, every dereference / map store / interface or function-value call (E1: forward must-dataflow of non-nil facts over access paths, with error-correlated results, constructor-non-nil fields and call-site joins for unexported parameters), every index and slice expression (E2: difference constraints from dominating tests, range/counted loops, library length contracts and interprocedural length facts), every integer division, single-result type assertion and explicit panic (E3), and every loop (E4: progress classification) is decided on all paths; unproved sites are either audited residue (rules/residue.txt) or reported.",
		Assumptions: commonAssumptions,
		Rules:       []Rule{{"nilderef", ruleNilDeref}, {"nil-element", ruleNilProducer}, {"support-currentPage", ruleSupportCurrentPage}, {"support-teletext-tables", ruleTeletextTables}, {"bounds", ruleBounds}, {"divzero", ruleDivZero}, {"typeassert", ruleTypeAssert}, {"explicit-panic", rulePanicCalls}, {"support-framerate", ruleSupportFramerate}, {"loops", ruleLoops}, {"positive-control", rulePositiveControls("panic")}},
	})
	register(&PropSpec{ID: "C01",
		Explanation: "Structural agreement clauses of the SubRip codec: (a) the HTML escape and unescape tables (constant arguments of the two strings.NewReplacer calls) are exact inverses, every escaped form starts with '&', '&' itself is escaped, no escaped form prefixes another — the necessary condition for '&', '<' and NBSP surviving; (b) in the run tokenizer the start-tag and end-tag switches cover the same tags and write the same state fields, every state field is copied into the attributes captured per text run, and the writer closes the tags it opens in reverse order and emits only tags the reader handles; (c) writer separator ∈ reader separators at millisecond scale. Not decided: any equality between decoded documents (line endings, index handling, trailing blank lines, state reset per cue).",
		Assumptions: commonAssumptions,
		Rules:       []Rule{{"escape-tables", ruleEscapeTables}, {"srt-tags", ruleSRTTags}, {"timestamp-format", ruleDurationFormats("SRT")}, {"emit-every-element", ruleEmitEveryElement([]string{"Subtitles.WriteToSRT"}, 1)}, {"fixed-radix", ruleFixedRadix}, {"per-cue-independence", ruleNoCarriedState((*Prog).WriterClosure, 5)}, {"pending-cue", ruleSRTPendingCue}},
	})
	register(&PropSpec{ID: "C02",
		Explanation: "Structural agreement clauses of the WebVTT codec: every cue setting (separator ':') and region setting (separator '=') the writer emits is parsed by the reader's switch into the same model field (tables extracted from the constant+field concatenations of the writer and the switch arms of the reader); escape tables are inverse; all region definitions are emitted before the cue loop starts; timestamp separator/scale agree and the inline-timestamp pattern accepts the writer's shape. Not decided: tag-stack semantics, voice extraction, comment attachment, STYLE content, round trip.",
		Assumptions: commonAssumptions,
		Rules:       []Rule{{"settings", ruleWebVTTSettings}, {"escape-tables", ruleEscapeTables}, {"timestamp-format", ruleDurationFormats("WebVTT")}, {"per-cue-independence", ruleNoCarriedState((*Prog).WriterClosure, 5)}, {"tag-stack", ruleTagStackConsulted}, {"emit-every-element", ruleEmitEveryElement([]string{"Subtitles.WriteToWebVTT"}, 1)}, {"fixed-radix", ruleFixedRadix}},
	})
	register(&PropSpec{ID: "C03",
		Explanation: "Structural agreement clauses of the TTML codec: each of the tts: attributes, header/subtitle/item attributes, metadata elements and element paths has the same XML local name (and attribute-ness) on the input and output structs (struct tags compared field by field); each style attribute is wired In.X → StyleAttributes.F → Out.X through the same F; every offset-time metric the grammar constant admits (alternatives of capture group 3, parsed with regexp/syntax) is handled by UnmarshalText; the language table is used forwards by the reader and backwards by the writer and covers the same languages as STL's; MarshalText/UnmarshalText separator and scale agree. Not decided: values of time expressions, <br/> handling, style inheritance links (shared-parent overwrite is a value-level map collision), character coverage.",
		Assumptions: commonAssumptions,
		Rules:       []Rule{{"attributes", ruleTTMLAttributes}, {"code-maps", ruleSTLCodeMaps}, {"timestamp-format", ruleDurationFormats("TTML")}, {"language-sources", ruleLanguageSources("TTML")}, {"exact-truncation", ruleExactTruncation(8)}, {"per-cue-independence", ruleNoCarriedState((*Prog).WriterClosure, 5)}, {"emit-every-element", ruleEmitEveryElement([]string{"Subtitles.WriteToTTML"}, 1)}, {"fixed-radix", ruleFixedRadix}},
	})
	register(&PropSpec{ID: "C04",
		Explanation: "Structural agreement clauses of the SSA/ASS codec: (a) every style column name is bound to the same ssaStyle field by the Format-line builder (updateFormat), the row writer (string) and the row reader (newSSAStyleFromString), event columns likewise (string / newSSAEventFromString / the Format list of WriteToSSA) and script-info names (bytes / parse); the model converters are mutually inverse (style ↔ StyleAttributes, script info ↔ Metadata); (b) the literal the row writer prints for a true boolean and for Marked is one the reader takes as true; (c) section headers written are sections read; (d) colour prefix and radix agree. Tables are extracted from the SSA switch arms and stores of /repo on every run. Not decided: Format-permutation behaviour, text splitting, idempotent rewrite.",
		Assumptions: commonAssumptions,
		Rules:       []Rule{{"columns", ruleSSAColumns}, {"literals", ruleSSALiterals}, {"timestamp-format", ruleDurationFormats("SSA")}, {"fixed-radix", ruleFixedRadix}, {"per-cue-independence", ruleNoCarriedState((*Prog).WriterClosure, 5)}, {"emit-every-element", ruleEmitEveryElement([]string{"Subtitles.WriteToSSA"}, 1)}},
	})
	register(&PropSpec{ID: "C05",
		Explanation: "Structural agreement clauses of the EBU STL codec, decided by evaluating constants and literal tables of /repo and comparing sibling implementations: (T3) the 1024-byte GSI and 128-byte TTI layouts — writer part widths and reader slice offsets extracted per field — agree field by field, sum to the block sizes and do not overlap; (T2) every character the writer tables encode is decoded back to itself by the reader table, printable ASCII the writer passes through is decoded as itself, no table has duplicate keys or values; (T4) justification code maps are mutually inverse, frame-rate table rows are 8-byte keys with positive rates, STL and TTML language tables cover the same languages; (A5) GSI ↔ Metadata wiring agrees in both directions; every division by the frame rate is guarded. Not decided: timecode quantisation, diacritic composition, style runs, teletext-vs-open display-standard behaviour.",
		Assumptions: commonAssumptions,
		Rules:       []Rule{{"layouts", ruleSTLLayouts}, {"char-tables", ruleSTLCharTables}, {"code-maps", ruleSTLCodeMaps}, {"metadata-wiring", ruleSTLMetadataWiring}, {"support-framerate", ruleSupportFramerate}, {"timestamp-format", ruleDurationFormats("STL")}, {"language-sources", ruleLanguageSources("STL")}, {"frame-rounding", ruleSTLRounding}, {"reader-full-scan", ruleReaderFullScan([]string{"ReadFromSTL"}, 1)}, {"per-cue-independence", ruleNoCarriedState((*Prog).WriterClosure, 5)}, {"emit-every-element", ruleEmitEveryElement([]string{"Subtitles.WriteToSTL"}, 1)}, {"fixed-radix", ruleFixedRadix}, {"gsi-framerate", ruleGSIFramerateValidated}, {"teletext-box", ruleSTLBoxAgreement}, {"offset-symmetry", ruleSTLOffsetSymmetry}},
	})
	register(&PropSpec{ID: "C06",
		Explanation: "Exclusion clause of teletext decoding only (packets of other pages, magazines, PIDs, non-subtitle units never contribute text; characters failing parity contribute none; only boxed text): the chain of control-dependence guards on the only path along which bytes reach a cue's text is decided on the SSA dominator tree — parsePacketData only under receiving ∧ magazine match ∧ 1 ≤ packet ≤ 25; parsePacket only for data-unit id 0x03, framing code 0xe4 and two successful Hamming decodes; parseDataUnit only for EBU data identifiers; process only for the teletext PID, private stream 1 and a presentation time; a page instance starts only on page ∧ magazine match; run text grows only after a start-box; the stored byte is ByteParity's result or 0. Tables: every teletextCharsets row sets g0, national positions < 96, 700+ entries are single UTF-8 runes, colour codes 0–7 map to black…white with the CSS RGB values. Not decided: page scheduling, timing, serial/parallel termination, auto-detection — behaviours of a state machine over the packet sequence; there is no sibling encoder to cross-check against.",
		Assumptions: commonAssumptions,
		Rules:       []Rule{{"guards", ruleTeletextGuards}, {"tables", ruleTeletextTables}, {"national-options", ruleTeletextNational}},
	})
	register(&PropSpec{ID: "C07",
		Explanation: "Structural clauses of any-to-any conversion: (a) the extension tables of Open and Subtitles.Write are extracted from the SSA switch and must agree (same codec family per extension, .ts read-only), be case-insensitive and default to ErrInvalidExtension; (b) every writer returns before its first Write/Encode when the list is empty; (c) the CLI sub-command table equals the documented one (operation, flag variables in order, then Write(-o)); (d) no writer dereferences Metadata, styles' or regions' inline style or any optional pointer without a nil test (E1 restricted to the writers' closure). Not decided: cue preservation across the 35 format pairs and operation sequences.",
		Assumptions: commonAssumptions,
		Rules:       []Rule{{"ext-dispatch", ruleExtDispatch}, {"cli-dispatch", ruleCLIDispatch()}, {"cli-guards", ruleCLIGuards}, {"emit-every-element", ruleEmitEveryElement(writerFns[:5], 5)}, {"empty-list-guard", ruleEmptyListGuard}, {"writers-nil-tolerant", ruleWritersNilTolerant}, {"gsi-framerate", ruleGSIFramerateValidated}, {"teletext-box", ruleSTLBoxAgreement}},
	})
	register(&PropSpec{ID: "C09",
		Explanation: "Structural clauses of Sync (Subtitles.Add): frame condition (writes only StartAt, EndAt and the item slice); both boundaries of a cue receive the same update expression; the in-place deletion rewinds the loop index on every path; the CLI sync sub-command calls Add with the -s flag and then writes. Not decided: that the shift equals d, the clamp, exactly which cues are removed.",
		Assumptions: commonAssumptions,
		Rules:       []Rule{{"frame", ruleFrame("Subtitles.Add")}, {"twin-update", ruleTwinUpdate("Subtitles.Add")}, {"delete-rewind", ruleDeleteRewind("Subtitles.Add")}, {"full-scan", ruleFullScan("Subtitles.Add")}, {"cli", ruleCLIDispatch("sync")}, {"cli-guards", ruleCLIGuards}},
	})
	register(&PropSpec{ID: "C10",
		Explanation: "Structural clauses of Fragment: frame condition; every new piece is a whole-value copy of its source item; every path from an insertion to a return passes Order(); CLI fragment → Fragment(-f). Not decided: where the cuts fall (the known last-listed-cue bound fault is a run-time bound and stays invisible).",
		Assumptions: commonAssumptions,
		Rules:       []Rule{{"frame", ruleFrame("Subtitles.Fragment")}, {"whole-copy", ruleWholeCopy}, {"order-after-insert", ruleOrderAfter}, {"cli", ruleCLIDispatch("fragment")}, {"cli-guards", ruleCLIGuards}},
	})
	register(&PropSpec{ID: "C11",
		Explanation: "Structural clauses of Unfragment: frame condition (only EndAt and the slice); delete-rewind on the inner index; Order() dominates the scan; the merge test compares Item.String() of both cues and that function reads every run's text; CLI unfragment. Not decided: which pairs merge, the fixpoint, the inverse law against Fragment.",
		Assumptions: commonAssumptions,
		Rules:       []Rule{{"frame", ruleFrame("Subtitles.Unfragment")}, {"delete-rewind", ruleDeleteRewind("Subtitles.Unfragment")}, {"order-before-scan", ruleOrderBefore}, {"complementary-exit", ruleComplementaryExit}, {"text-identity", ruleTextIdentity}, {"cli", ruleCLIDispatch("unfragment")}},
	})
	register(&PropSpec{ID: "C12",
		Explanation: "Order: only permutes (frame), through sort.SliceStable with a strict < on StartAt of (i, j). Merge: s.Items = append(s.Items, i.Items...) then Order() (receiver first, stable ⇒ A's cues ahead of B's on equal starts); definitions stored only on the not-found edge of a lookup under the same key (receiver wins); no effect rooted at the argument; no store into a nil map (receivers built without the constructor); CLI merge. With a correct library sort these are the statement. Not decided: correctness of sort.SliceStable.",
		Assumptions: commonAssumptions,
		Rules:       []Rule{{"frame-order", ruleFrame("Subtitles.Order")}, {"frame-merge", ruleFrame("Subtitles.Merge")}, {"stable-order", ruleStableOrder}, {"merge-shape", ruleMergeShape}, {"merge-nil-maps", ruleNilDerefIn("Subtitles.Merge", "Subtitles.Order")}, {"cli", ruleCLIDispatch("merge")}},
	})
	register(&PropSpec{ID: "C13",
		Explanation: "Optimize: only deletes map entries (frame), only when the list has a cue, under the key being ranged; the marking code reads every reference edge of the model (every *Style / *Region field of Item, Line, LineItem, Region, Style, computed from the type declarations, incl. Style.Style). RemoveStyling: writes all and only the styling fields (computed from the types), with nil / empty-map values. CLI optimize. Not decided: closure depth beyond reading each edge, idempotence, write/read-back.",
		Assumptions: commonAssumptions,
		Rules:       []Rule{{"frame-optimize", ruleFrame("Subtitles.Optimize")}, {"frame-removestyling", ruleFrame("Subtitles.RemoveStyling")}, {"reference-edges", ruleOptimizeEdges}, {"marking-order", ruleMarkingOrder}, {"styling-complete", ruleRemoveStylingComplete}, {"unconditional-clearing", ruleUnconditionalClearing}, {"optimize-guard", ruleOptimizeGuard}, {"cli", ruleCLIDispatch("optimize")}},
	})
	register(&PropSpec{ID: "C14",
		Explanation: "Structural clauses of ForceDuration: frame (only EndAt and the slice); the filler is appended only on the true edge of the addDummyItem parameter; every store is dominated by the false edge of Duration() == d whose true edge returns at once; Duration has no effect. Not decided: which cues are trimmed, the resulting duration, the filler interval.",
		Assumptions: commonAssumptions,
		Rules:       []Rule{{"frame", ruleFrame("Subtitles.ForceDuration")}, {"frame-duration", ruleFrame("Subtitles.Duration")}, {"guards", ruleForceDurationGuards}, {"cut-and-filler", ruleForceDurationScan}},
	})
	register(&PropSpec{ID: "C15",
		Explanation: "Structural clauses of ApplyLinearCorrection: frame (only StartAt/EndAt, never the slice or its order); both boundaries are mapped by the identical expression (tree isomorphism up to the field swap); CLI passes a1, d1, a2, d2 in that order. Not decided: that the expression is the affine map within 1 µs (floating-point values).",
		Assumptions: commonAssumptions,
		Rules:       []Rule{{"frame", ruleFrame("Subtitles.ApplyLinearCorrection")}, {"twin-update", ruleTwinUpdate("Subtitles.ApplyLinearCorrection")}, {"full-scan", ruleFullScan("Subtitles.ApplyLinearCorrection")}, {"cli", ruleCLIDispatch("apply-linear-correction")}, {"cli-guards", ruleCLIGuards}, {"no-overflow", ruleNoOverflow("Subtitles.ApplyLinearCorrection")}},
	})
}
