package chk

import (
	"fmt"
	"go/constant"
	"go/token"
	"strings"

	"golang.org/x/tools/go/ssa"
)

// Rules added after the seeded changes of round 11 (two per property).

// derivesFromCall: v is (a conversion / merge / substring of) the result of a call to one of the named functions.
func derivesFromCall(v ssa.Value, names map[string]bool, depth int, seen map[ssa.Value]bool) *ssa.Call {
	if v == nil || depth > 8 || seen[v] {
		return nil
	}
	seen[v] = true
	switch x := v.(type) {
	case *ssa.Call:
		if names[calleeName(&x.Call)] || names[calleeShort(&x.Call)] {
			return x
		}
		if sc := x.Call.StaticCallee(); sc != nil && names[FnName(sc)] {
			return x
		}
	case *ssa.Phi:
		for _, e := range x.Edges {
			if c := derivesFromCall(e, names, depth+1, seen); c != nil {
				return c
			}
		}
	case *ssa.Convert:
		return derivesFromCall(x.X, names, depth+1, seen)
	case *ssa.ChangeType:
		return derivesFromCall(x.X, names, depth+1, seen)
	case *ssa.Slice:
		return derivesFromCall(x.X, names, depth+1, seen)
	case *ssa.Extract:
		return derivesFromCall(x.Tuple, names, depth+1, seen)
	}
	return nil
}

// ---- E12-G12b blankness is decided on the raw token (C01/r11) ----------------------------------------------
// The SRT and WebVTT readers skip runs that are blank. strings.TrimSpace counts U+00A0 as white space, and
// unescapeHTML turns "&nbsp;" into U+00A0: a blank test on the decoded text drops a run made of no-break spaces,
// which is text the document denotes (and which the writer emits as "&nbsp;"). Rule: in the closure of the two text
// parsers no white-space trimming function is applied to (something derived from) the result of unescapeHTML.
func ruleBlankTestOnRaw(p *Prog, l *Ledger, tier string) {
	const rule = "E12.G12b-blank-test-on-raw-token"
	trims := map[string]bool{"strings.TrimSpace": true, "strings.Fields": true, "strings.TrimFunc": true, "strings.TrimLeftFunc": true, "strings.TrimRightFunc": true, "bytes.TrimSpace": true}
	n, sites := 0, 0
	for _, name := range []string{"parseTextWebVTT", "parseTextSrt"} {
		fn := anchor(p, l, rule, name)
		if fn == nil {
			continue
		}
		for _, f := range p.Helpers(fn) {
			if fnPkg(f) != p.LibSSA {
				continue
			}
			n++
			for _, b := range f.Blocks {
				for _, ins := range b.Instrs {
					c, ok := ins.(*ssa.Call)
					if !ok || !trims[calleeName(&c.Call)] || len(c.Call.Args) == 0 {
						continue
					}
					sites++
					key := l.Key(rule, FnName(f), "trim", descOf(c.Call.Args[0]))
					if u := derivesFromCall(c.Call.Args[0], map[string]bool{"unescapeHTML": true}, 0, map[ssa.Value]bool{}); u != nil {
						l.Fail(rule, FnName(f), key, p.Pos(c.Pos()), fmt.Sprintf("%s applies %s to text that has been through unescapeHTML (at %s): the decoded text can consist of U+00A0 (written as &nbsp;), which %s takes for white space, so a run of no-break spaces is treated as blank and dropped", FnName(f), calleeShort(&c.Call), p.Pos(u.Pos()), calleeShort(&c.Call)))
					} else {
						l.Prove(rule, FnName(f), key, p.Pos(c.Pos()), "white space is trimmed / tested on text that has not been unescaped")
					}
				}
			}
		}
	}
	l.Note("%s: %d functions, %d trimming calls", rule, n, sites)
	l.Min(rule, sites, 2)
}

// ---- E12-G4t every part of a WebVTT tag is written (C02/r11) --------------------------------------------------
// WebVTTTag.startTag renders name, classes and annotation. Whatever the control flow, a path that returns a
// non-empty tag without having looked at t.Classes or at t.Annotation writes a tag from which that part is missing
// whenever it is set. Rule: no path from the entry of startTag to a return of a non-constant string avoids every
// read of Classes, and none avoids every read of Annotation (a test of the field counts as a read: the path then
// knows whether the part is empty).
func ruleTagPartsConsulted(p *Prog, l *Ledger, tier string) {
	const rule = "E12.G4t-tag-parts-consulted"
	fn := anchor(p, l, rule, "WebVTTTag.startTag")
	if fn == nil {
		return
	}
	reads := map[string][]ssa.Instruction{}
	for _, b := range fn.Blocks {
		for _, ins := range b.Instrs {
			switch x := ins.(type) {
			case *ssa.UnOp:
				if _, f, _ := loadedField(x); f != "" {
					reads[f] = append(reads[f], x)
				}
			case *ssa.Field:
				reads[fieldName(x.X.Type(), x.Field)] = append(reads[fieldName(x.X.Type(), x.Field)], x)
			case *ssa.FieldAddr:
				f := fieldName(x.X.Type(), x.Field)
				for _, r := range *x.Referrers() {
					if ld, ok := r.(*ssa.UnOp); ok {
						reads[f] = append(reads[f], ld)
					}
				}
			}
		}
	}
	n := 0
	for _, field := range []string{"Classes", "Annotation"} {
		for _, b := range fn.Blocks {
			ret, ok := b.Instrs[len(b.Instrs)-1].(*ssa.Return)
			if !ok || len(ret.Results) != 1 {
				continue
			}
			if s, isC := constStr(ret.Results[0]); isC && s == "" {
				continue // the empty tag (no name)
			}
			n++
			key := l.Key(rule, "WebVTTTag.startTag", "return", field)
			if pathAvoidingReadsPhi(fn, b, reads[field]) {
				l.Fail(rule, "WebVTTTag.startTag", key, p.Pos(ret.Pos()), fmt.Sprintf("WebVTTTag.startTag can reach the return at %s without ever looking at t.%s: a tag whose %s is set is written without it (<lang.formal fr> becomes <lang.formal>)", p.Pos(ret.Pos()), field, strings.ToLower(field)))
			} else {
				l.Prove(rule, "WebVTTTag.startTag", key, p.Pos(ret.Pos()), "every path to this return reads t."+field)
			}
		}
	}
	l.Min(rule, n, 2)
}

// ---- E12-G13b raw inner XML is only stripped of leading white space (C03/r11) ---------------------------------
// Before the <p> content is handed to the XML decoder, ReadFromTTML removes the indentation of its source lines:
// white space at the START of a line. White space at the end of a source line is text ("How did we " followed by a
// <span> on the next line). Rule: in ReadFromTTML and its helpers, no function that trims at the end of its
// argument (TrimSpace, TrimFunc, TrimRight*, TrimSuffix, Fields) is applied to something derived from the raw inner
// XML of a paragraph.
func ruleRawXMLLeadingOnly(p *Prog, l *Ledger, tier string) {
	const rule = "E12.G13b-raw-xml-leading-trim-only"
	fn := anchor(p, l, rule, "ReadFromTTML")
	if fn == nil {
		return
	}
	trailing := map[string]bool{"strings.TrimSpace": true, "strings.TrimFunc": true, "strings.TrimRight": true, "strings.TrimRightFunc": true, "strings.TrimSuffix": true, "strings.Fields": true, "strings.Trim": true}
	var fromRaw func(v ssa.Value, depth int, seen map[ssa.Value]bool) bool
	fromRaw = func(v ssa.Value, depth int, seen map[ssa.Value]bool) bool {
		if v == nil || depth > 10 || seen[v] {
			return false
		}
		seen[v] = true
		if _, f, _ := loadedField(v); f == "Items" && isStringT(v.Type()) {
			return true
		}
		switch x := v.(type) {
		case *ssa.Field:
			return fieldName(x.X.Type(), x.Field) == "Items" && isStringT(x.Type())
		case *ssa.Phi:
			for _, e := range x.Edges {
				if fromRaw(e, depth+1, seen) {
					return true
				}
			}
		case *ssa.Call:
			for _, a := range x.Call.Args {
				if fromRaw(a, depth+1, seen) {
					return true
				}
			}
		case *ssa.UnOp:
			// an element of a list of pieces of the raw text
			if ia, ok := x.X.(*ssa.IndexAddr); ok {
				return fromRaw(ia.X, depth+1, seen)
			}
		case *ssa.Slice:
			return fromRaw(x.X, depth+1, seen)
		case *ssa.Parameter:
			// a helper's parameter: what its call sites pass
			h := x.Parent()
			for k, q := range h.Params {
				if q != x {
					continue
				}
				for _, b := range p.helperBlocks(fn) {
					for _, ins := range b.Instrs {
						if c, ok := ins.(*ssa.Call); ok && c.Call.StaticCallee() == h && k < len(c.Call.Args) && fromRaw(c.Call.Args[k], depth+1, seen) {
							return true
						}
					}
				}
			}
		}
		return false
	}
	n := 0
	for _, b := range p.helperBlocks(fn) {
		if fnPkg(b.Parent()) != p.LibSSA {
			continue
		}
		for _, ins := range b.Instrs {
			c, ok := ins.(*ssa.Call)
			if !ok || !trailing[calleeName(&c.Call)] || len(c.Call.Args) == 0 {
				continue
			}
			if !fromRaw(c.Call.Args[0], 0, map[ssa.Value]bool{}) {
				continue
			}
			n++
			l.Fail(rule, FnName(b.Parent()), l.Key(rule, FnName(b.Parent()), "trailing-trim", calleeShort(&c.Call)), p.Pos(c.Pos()), fmt.Sprintf("%s applies %s to a piece of a paragraph's raw inner XML: white space at the end of a source line is part of the text (a run ending in a space before a line break loses it); only the indentation at the start of a line may go", FnName(b.Parent()), calleeShort(&c.Call)))
		}
	}
	if n == 0 {
		l.Prove(rule, "ReadFromTTML", rule+"|none", p.Pos(fn.Pos()), "nothing trims the end of a piece of the raw inner XML")
	}
}

// ---- E3c-R5 writers do not round to nearest by adding half a unit (C07/r11) -------------------------------------
// A timestamp writer truncates to the destination's resolution (C16, C07): (n + unit/2) / unit rounds to nearest,
// so a fraction of 999.5 ms or more is written as 1000 (a four-digit field, or the next second lost).
func ruleNoHalfUnitRounding(scope func(*Prog, *Ledger, string) []*ssa.Function) func(p *Prog, l *Ledger, tier string) {
	return func(p *Prog, l *Ledger, tier string) {
		const rule = "E3c.R5-no-half-unit-rounding"
		n, bad := 0, 0
		for _, fn := range scope(p, l, rule) {
			if fnPkg(fn) != p.LibSSA {
				continue
			}
			n++
			for _, b := range fn.Blocks {
				for _, ins := range b.Instrs {
					q, ok := ins.(*ssa.BinOp)
					if !ok || q.Op != token.QUO || !isIntegerT(q.Type()) {
						continue
					}
					d, ok := constInt(stripConv(q.Y))
					if !ok || d < 2 {
						continue
					}
					add, ok := stripConv(q.X).(*ssa.BinOp)
					if !ok || add.Op != token.ADD {
						continue
					}
					for _, side := range []ssa.Value{add.X, add.Y} {
						if h, ok := constInt(stripConv(side)); ok && (h == d/2 || h == (d+1)/2) && h > 0 {
							bad++
							l.Fail(rule, FnName(fn), l.Key(rule, FnName(fn), "round-half", fmt.Sprint(d)), p.Pos(q.Pos()), fmt.Sprintf("%s computes (x + %d) / %d: rounding to the nearest unit instead of truncating; a fraction just below the next unit is written as a full unit (999.5 ms becomes 1000, a field one digit too wide or an instant in the next second)", FnName(fn), h, d))
						}
					}
				}
			}
		}
		if bad == 0 {
			l.Prove(rule, "", rule+"|none", "", fmt.Sprintf("no (x + unit/2) / unit in %d writer functions", n))
		}
		l.Min(rule, n, 5)
	}
}

// ---- E3e duration parsers do not go through the calendar clock parser (C16/r11) ---------------------------------
// time.Parse validates its fields as a time of day (hours 0..23): a timestamp parser built on it rejects every
// instant from 24:00:00 on, which the writers render and the property covers (below 100 h).
func ruleNoClockParse(p *Prog, l *Ledger, tier string) {
	const rule = "E3e.no-clock-parse"
	fn := anchor(p, l, rule, "parseDuration")
	if fn == nil {
		return
	}
	n, bad := 0, 0
	var roots []*ssa.Function
	for _, f := range p.LibFns {
		if strings.HasPrefix(FnName(f), "parseDuration") || FnName(f) == "TTMLInDuration.UnmarshalText" {
			roots = append(roots, f)
		}
	}
	for _, f := range p.Closure(roots) {
		if fnPkg(f) != p.LibSSA {
			continue
		}
		n++
		for _, b := range f.Blocks {
			for _, ins := range b.Instrs {
				c, ok := ins.(*ssa.Call)
				if !ok {
					continue
				}
				switch calleeName(&c.Call) {
				case "time.Parse", "time.ParseInLocation":
					bad++
					l.Fail(rule, FnName(f), l.Key(rule, FnName(f), "time.Parse", ""), p.Pos(c.Pos()), FnName(f)+" parses a timestamp with "+calleeName(&c.Call)+", which validates a time of day (hours 0 to 23): offsets from 24:00:00 on, which every writer can render, are rejected on reading")
				}
			}
		}
	}
	if bad == 0 {
		l.Prove(rule, "", rule+"|none", "", fmt.Sprintf("no call of time.Parse in the %d functions of the timestamp parsers", n))
	}
	l.Min(rule, n, 5)
}

// pathAvoidingReadsPhi: some path from the entry of fn reaches the end of target without executing any of the
// reads. Branches on a phi of constants (a && or || compiled into control flow) are followed only along the edge
// the incoming constant selects.
func pathAvoidingReadsPhi(fn *ssa.Function, target *ssa.BasicBlock, reads []ssa.Instruction) bool {
	has := map[*ssa.BasicBlock]bool{}
	for _, r := range reads {
		has[r.Block()] = true
	}
	type st struct{ b, from *ssa.BasicBlock }
	seen := map[st]bool{}
	var dfs func(b, from *ssa.BasicBlock) bool
	dfs = func(b, from *ssa.BasicBlock) bool {
		if seen[st{b, from}] || has[b] {
			return false
		}
		seen[st{b, from}] = true
		if b == target {
			return true
		}
		succs := b.Succs
		if iff, ok := b.Instrs[len(b.Instrs)-1].(*ssa.If); ok && from != nil {
			if ph, ok := iff.Cond.(*ssa.Phi); ok && ph.Block() == b {
				for i, pb := range b.Preds {
					if pb != from {
						continue
					}
					if c, ok := ph.Edges[i].(*ssa.Const); ok && c.Value != nil && c.Value.Kind() == constant.Bool {
						if constant.BoolVal(c.Value) {
							succs = b.Succs[:1]
						} else {
							succs = b.Succs[1:2]
						}
					}
				}
			}
		}
		for _, s := range succs {
			if dfs(s, b) {
				return true
			}
		}
		return false
	}
	return dfs(fn.Blocks[0], nil)
}

// ---- E3f narrow integer parses cover the width of their field (C05/r11) ------------------------------------------
// strconv.ParseInt / ParseUint with a bit size below 32 rejects values the field can hold when the field has more
// decimal digits than the size covers (a five-digit GSI counter goes up to 99999; 16 bits stop at 65535: a file
// declaring more than 65535 blocks is refused). Rule: for every such call in the reader closure the text parsed is a
// fixed-width piece b[lo:hi] (constants; through TrimSpace, string conversions and helper parameters, at every call
// site), and 10^(hi-lo) - 1 fits.
func ruleNarrowParse(p *Prog, l *Ledger, tier string) {
	const rule = "E3f.narrow-parse-covers-field"
	fns := p.ReaderClosure(l, rule)
	inScope := map[*ssa.Function]bool{}
	for _, f := range fns {
		inScope[f] = true
	}
	// widthOf: the largest number of characters v can have, or -1
	var widthOf func(v ssa.Value, depth int) int64
	widthOf = func(v ssa.Value, depth int) int64 {
		if v == nil || depth > 8 {
			return -1
		}
		switch x := v.(type) {
		case *ssa.Const:
			if s, ok := constStr(x); ok {
				return int64(len(s))
			}
		case *ssa.Convert:
			return widthOf(x.X, depth+1)
		case *ssa.ChangeType:
			return widthOf(x.X, depth+1)
		case *ssa.Slice:
			if x.Low != nil && x.High != nil {
				lo, ok1 := constInt(x.Low)
				hi, ok2 := constInt(x.High)
				if ok1 && ok2 && hi >= lo {
					return hi - lo
				}
			}
			if x.Low == nil && x.High != nil {
				if hi, ok := constInt(x.High); ok {
					return hi
				}
			}
			return -1
		case *ssa.UnOp:
			if x.Op == token.MUL {
				if _, ok := x.X.(*ssa.IndexAddr); ok && !isStringT(x.Type()) {
					return 1 // one byte
				}
			}
			return -1
		case *ssa.Index:
			return 1
		case *ssa.Call:
			switch calleeName(&x.Call) {
			case "strings.TrimSpace", "strings.TrimLeft", "strings.TrimRight", "strings.Trim", "strings.TrimPrefix", "strings.TrimSuffix", "bytes.TrimSpace":
				return widthOf(x.Call.Args[0], depth+1)
			}
			return -1
		case *ssa.Phi:
			w := int64(0)
			for _, e := range x.Edges {
				we := widthOf(e, depth+1)
				if we < 0 {
					return -1
				}
				if we > w {
					w = we
				}
			}
			return w
		case *ssa.Parameter:
			h := x.Parent()
			k := -1
			for i, q := range h.Params {
				if q == x {
					k = i
				}
			}
			w, sites := int64(0), 0
			for _, f := range fns {
				for _, b := range f.Blocks {
					for _, ins := range b.Instrs {
						c, ok := ins.(*ssa.Call)
						if !ok || c.Call.StaticCallee() != h || k < 0 || k >= len(c.Call.Args) {
							continue
						}
						sites++
						wc := widthOf(c.Call.Args[k], depth+1)
						if wc < 0 {
							return -1
						}
						if wc > w {
							w = wc
						}
					}
				}
			}
			if sites == 0 {
				return -1
			}
			return w
		}
		return -1
	}
	n := 0
	for _, f := range fns {
		if fnPkg(f) != p.LibSSA {
			continue
		}
		for _, b := range f.Blocks {
			for _, ins := range b.Instrs {
				c, ok := ins.(*ssa.Call)
				if !ok {
					continue
				}
				name := calleeName(&c.Call)
				if name != "strconv.ParseInt" && name != "strconv.ParseUint" {
					continue
				}
				bits, ok := constInt(c.Call.Args[2])
				if !ok || bits == 0 || bits >= 32 {
					continue
				}
				n++
				key := l.Key(rule, FnName(f), "parse", fmt.Sprintf("%s/%d", name, bits))
				maxv := int64(1)<<uint(bits) - 1
				if name == "strconv.ParseInt" {
					maxv = int64(1)<<uint(bits-1) - 1
				}
				base, okb := constInt(c.Call.Args[1])
				w := widthOf(c.Call.Args[0], 0)
				if w < 0 || !okb || base != 10 {
					l.Undecide(rule, FnName(f), key, p.Pos(c.Pos()), fmt.Sprintf("%s parses into %d bits, and the width of the text it is given could not be bounded: whether every value the field can hold fits is not decided", FnName(f), bits))
					continue
				}
				top := int64(1)
				for i := int64(0); i < w && top <= maxv; i++ {
					top *= 10
				}
				if top-1 > maxv {
					l.Fail(rule, FnName(f), key, p.Pos(c.Pos()), fmt.Sprintf("%s parses a field of up to %d decimal digits with %s(…, 10, %d), which stops at %d: a well-formed field above that (up to %d) is refused and the whole document with it", FnName(f), w, name, bits, maxv, top-1))
				} else {
					l.Prove(rule, FnName(f), key, p.Pos(c.Pos()), fmt.Sprintf("a field of at most %d digits fits %d bits", w, bits))
				}
			}
		}
	}
	if n == 0 {
		l.Prove(rule, "", rule+"|none", "", "no integer parse narrower than 32 bits in the reader closure")
	}
}

// ---- E12-G9b every decodable header but the time-filling one reaches the end-of-page test (C06/r11) --------------
// A page header of another page ends the page being received (same magazine, or any magazine in serial mode).
// parsePacketHeader may leave early for a header it cannot decode, and for page number 0xFF (a time-filling header,
// which says nothing about pages). Any other early exit placed before the "page transmission is done" test lets the
// rows of the page that follows be stored into the selected page. Rule: for each of the 255 other values of the two
// page-number digits, with every Hamming decode succeeding, no path from the entry reaches a return without first
// passing a block that reads b.receiving or compares the page number with the selected one (the function is evaluated with the digits fixed: branches that depend
// on them only are decided, all others are followed both ways).
func ruleHeaderReachesEndOfPageTest(p *Prog, l *Ledger, tier string) {
	const rule = "E12.G9b-header-reaches-end-of-page-test"
	const name = "teletextPageBuffer.parsePacketHeader"
	fn := anchor(p, l, rule, name)
	if fn == nil {
		return
	}
	// the digits: results of ByteHamming84Decode(i[0]) (units) and ByteHamming84Decode(i[1]) (tens)
	var units, tens ssa.Value
	oks := []ssa.Value{}
	for _, b := range fn.Blocks {
		for _, ins := range b.Instrs {
			ex, ok := ins.(*ssa.Extract)
			if !ok {
				continue
			}
			c, ok := ex.Tuple.(*ssa.Call)
			if !ok || calleeShort(&c.Call) != "ByteHamming84Decode" && !strings.HasSuffix(calleeName(&c.Call), "ByteHamming84Decode") {
				continue
			}
			if ex.Index == 1 {
				oks = append(oks, ex)
				continue
			}
			if u, ok := c.Call.Args[0].(*ssa.UnOp); ok {
				if ia, ok := u.X.(*ssa.IndexAddr); ok {
					if k, ok := constInt(ia.Index); ok {
						switch k {
						case 0:
							units = ex
						case 1:
							tens = ex
						}
					}
				}
			}
		}
	}
	// the end-of-page test: the block(s) that load b.receiving
	recv := map[*ssa.BasicBlock]bool{}
	for _, b := range fn.Blocks {
		for _, ins := range b.Instrs {
			if u, ok := ins.(*ssa.UnOp); ok {
				if _, f, _ := loadedField(u); f == "receiving" {
					recv[b] = true
				}
			}
			// … or that compares the header's page number with the selected one (the other half of the same decision:
			// "is this a header of another page")
			if bo, ok := ins.(*ssa.BinOp); ok && (bo.Op == token.EQL || bo.Op == token.NEQ) {
				for _, pr := range [][2]ssa.Value{{bo.X, bo.Y}, {bo.Y, bo.X}} {
					if _, f, _ := loadedField(pr[0]); f == "pageNumber" {
						if _, isC := pr[1].(*ssa.Const); !isC {
							recv[b] = true
						}
					}
				}
			}
		}
	}
	if units == nil || tens == nil || len(recv) == 0 {
		l.Undecide(rule, name, rule+"|shape", p.Pos(fn.Pos()), "the two page-number digits (Hamming-decoded bytes 0 and 1 of the header) or the test of b.receiving were not found in parsePacketHeader")
		return
	}
	type frame struct {
		b, pred *ssa.BasicBlock
	}
	var bad []string
	var badPos token.Pos
	for t := int64(0); t < 16; t++ {
		for u := int64(0); u < 16; u++ {
			if t == 15 && u == 15 {
				continue
			}
			env0 := map[ssa.Value]pv{tens: {i: t}, units: {i: u}}
			for _, o := range oks {
				env0[o] = pv{isBool: true, b: true}
			}
			steps := 0
			var early *ssa.BasicBlock
			var run func(b, pred *ssa.BasicBlock, env map[ssa.Value]pv, seen map[*ssa.BasicBlock]bool)
			run = func(b, pred *ssa.BasicBlock, env map[ssa.Value]pv, seen map[*ssa.BasicBlock]bool) {
				steps++
				if early != nil || steps > 3000 || seen[b] || recv[b] {
					return
				}
				seen[b] = true
				if pred != nil {
					for i, pb := range b.Preds {
						if pb != pred {
							continue
						}
						for _, ins := range b.Instrs {
							ph, isPhi := ins.(*ssa.Phi)
							if !isPhi {
								break
							}
							if v, ok := pevalValue(ph.Edges[i], env, 0); ok {
								env[ph] = v
							} else {
								delete(env, ph)
							}
						}
					}
				}
				switch last := b.Instrs[len(b.Instrs)-1].(type) {
				case *ssa.Return:
					early = b
				case *ssa.If:
					if c, ok := pevalValue(last.Cond, env, 0); ok && c.isBool {
						s := b.Succs[1]
						if c.b {
							s = b.Succs[0]
						}
						run(s, b, env, seen)
						return
					}
					if shortPacketTest(fn, last.Cond) {
						// a packet shorter than the bytes the function decodes anyway is a header it cannot decode
						run(b.Succs[1], b, env, seen)
						return
					}
					for _, s := range b.Succs {
						e2 := map[ssa.Value]pv{}
						for k, v := range env {
							e2[k] = v
						}
						s2 := map[*ssa.BasicBlock]bool{}
						for k := range seen {
							s2[k] = true
						}
						run(s, b, e2, s2)
					}
				case *ssa.Jump:
					run(b.Succs[0], b, env, seen)
				}
			}
			run(fn.Blocks[0], nil, env0, map[*ssa.BasicBlock]bool{})
			if early != nil {
				bad = append(bad, fmt.Sprintf("%X%X", t, u))
				if r := early.Instrs[len(early.Instrs)-1]; badPos == token.NoPos {
					badPos = r.Pos()
				}
			}
		}
	}
	key := rule + "|" + name
	if len(bad) == 0 {
		l.Prove(rule, name, key, p.Pos(fn.Pos()), "for each of the 255 page numbers other than 0xFF every decodable header reaches the test of b.receiving before any return")
		return
	}
	show := bad
	if len(show) > 8 {
		show = append(append([]string{}, bad[:8]...), fmt.Sprintf("… (%d page numbers)", len(bad)))
	}
	l.Fail(rule, name, key, p.Pos(badPos), fmt.Sprintf("%s returns for page number(s) %s before the \"page transmission is done\" test is reached: a header of such a page in the selected magazine does not end the page being received, and the rows that follow it are stored into the selected page", name, strings.Join(show, ", ")))
}

// ---- E13-I5b the merge test of Unfragment has no third condition (C11/r11) --------------------------------------
// Two cues are merged when they read the same and touch or overlap, nothing else (the property's text identity is
// the rendered string). A further conjunct on the way to the deletion (the same style pointer, the same region, …)
// leaves same-text cues that touch unmerged whenever it fails. Rule: every branch condition that holds on entry of
// the block deleting the merged cue is a loop bound, an equality of two Item.String() results (or of two entries of
// a table of them), or a comparison of EndAt with StartAt.
func ruleMergeTestOnly(p *Prog, l *Ledger, tier string) {
	const rule = "E13.I5b-merge-test-only"
	const name = "Subtitles.Unfragment"
	fn := anchor(p, l, rule, name)
	if fn == nil {
		return
	}
	var dels []*ssa.BasicBlock
	for _, h := range p.Helpers(fn) {
		if fnPkg(h) != p.LibSSA {
			continue
		}
		for _, d := range inPlaceDeletes(h) {
			if _, f := fieldOfAddr(d.st.Addr); f == "Items" {
				// as seen from Unfragment: the call of the helper that deletes
				site := p.siteIn(fn, d.st)
				if site != nil {
					dels = append(dels, site.Block())
				}
			}
		}
	}
	if len(dels) == 0 {
		l.Prove(rule, name, rule+"|idiom-absent", p.Pos(fn.Pos()), "idiom-absent: no in-place deletion in Unfragment (other shapes are judged by the text-identity and frame rules)")
		return
	}
	isTimes := func(v ssa.Value) bool {
		bo, ok := v.(*ssa.BinOp)
		if !ok {
			return false
		}
		fs := strset{}
		traceField(bo.X, "Item", map[ssa.Value]bool{}, fs)
		traceField(bo.Y, "Item", map[ssa.Value]bool{}, fs)
		for f := range fs {
			if f != "EndAt" && f != "StartAt" {
				return false
			}
		}
		return len(fs) > 0
	}
	isText := func(v ssa.Value) bool {
		bo, ok := v.(*ssa.BinOp)
		if !ok || (bo.Op != token.EQL && bo.Op != token.NEQ) || !isStringT(bo.X.Type()) {
			return false
		}
		return true
	}
	var accept func(c ssa.Value, depth int) bool
	accept = func(c ssa.Value, depth int) bool {
		if depth > 4 {
			return false
		}
		if isLoopBoundCond(c) || isLenOfItemsCond(c) || isText(c) || isTimes(c) {
			return true
		}
		switch x := c.(type) {
		case *ssa.UnOp:
			if x.Op == token.NOT {
				return accept(x.X, depth+1)
			}
		case *ssa.Phi:
			for _, e := range x.Edges {
				if _, isC := e.(*ssa.Const); isC {
					continue
				}
				if !accept(e, depth+1) {
					return false
				}
			}
			return true
		case *ssa.Call:
			// a helper of the library deciding the merge (isFragmentedBy): its own conditions are judged when the
			// deletion is looked at from inside it; here it stands for the merge test
			if sc := x.Call.StaticCallee(); sc != nil && fnPkg(sc) == p.LibSSA {
				return mergeHelperOnly(p, sc, accept)
			}
		}
		return false
	}
	n := 0
	for _, db := range dels {
		n++
		key := l.Key(rule, name, "merge", "")
		bad := ""
		for _, dc := range dominatingConds(db) {
			if !accept(dc.cond, 0) {
				bad = p.Pos(dc.cond.Pos())
				if bad == "-" {
					bad = "a condition without position"
				}
			}
		}
		if bad == "" {
			l.Prove(rule, name, key, blockPos(p, db), "the deletion of a merged cue depends on loop bounds, the text equality and the comparison of EndAt with StartAt only")
		} else {
			l.Fail(rule, name, key, bad, fmt.Sprintf("%s: the merge also depends on the condition at %s, which is neither the text equality nor the touching test: same-text cues that touch stay apart whenever it fails", name, bad))
		}
	}
	l.Min(rule, n, 1)
}

// mergeHelperOnly: every condition on the way to a `return true` of the boolean helper h is acceptable.
func mergeHelperOnly(p *Prog, h *ssa.Function, accept func(ssa.Value, int) bool) bool {
	if len(h.Blocks) == 0 {
		return false
	}
	for _, b := range h.Blocks {
		ret, ok := b.Instrs[len(b.Instrs)-1].(*ssa.Return)
		if !ok || len(ret.Results) != 1 {
			continue
		}
		if c, isC := ret.Results[0].(*ssa.Const); isC {
			if c.Value == nil || !constant.BoolVal(c.Value) {
				continue // return false: refusing a merge is always allowed here (judged by the seeds' other rules)
			}
		} else if !accept(ret.Results[0], 1) {
			return false
		}
		for _, dc := range dominatingConds(b) {
			if !accept(dc.cond, 1) {
				return false
			}
		}
	}
	return true
}

// ---- E14-M5e Duration looks at cue times only (C14/r11) -----------------------------------------------------------
// ForceDuration decides everything from Duration(): the end of the list. A Duration that depends on anything but the
// cues' boundaries (whether a cue has lines, its text) under-reports for some lists and ForceDuration then leaves a
// list that lasts longer than d, or adds a filler to a list that already lasts d.
func ruleDurationReadsTimesOnly(p *Prog, l *Ledger, tier string) {
	const rule = "E14.M5e-duration-reads-times-only"
	fn := anchor(p, l, rule, "Subtitles.Duration")
	if fn == nil {
		return
	}
	read := fieldsRead(p, []*ssa.Function{fn})
	var extra []string
	for f := range read {
		if strings.HasPrefix(f, "Item.") && f != "Item.EndAt" && f != "Item.StartAt" {
			extra = append(extra, f)
		}
		if strings.HasPrefix(f, "Line.") || strings.HasPrefix(f, "LineItem.") {
			extra = append(extra, f)
		}
	}
	key := rule + "|Subtitles.Duration"
	if len(extra) > 0 {
		l.Fail(rule, "Subtitles.Duration", key, p.Pos(fn.Pos()), fmt.Sprintf("Subtitles.Duration reads %s: the duration of the list then depends on more than the boundaries of its cues, and ForceDuration (which decides what to trim and whether to add a filler from Duration()) leaves lists that do not last d", strings.Join(sortedStrings(extra), ", ")))
	} else {
		l.Prove(rule, "Subtitles.Duration", key, p.Pos(fn.Pos()), "Duration reads nothing of a cue but its boundaries")
	}
}

// ---- E14-M5f every kept cue is clipped (C14/r11) --------------------------------------------------------------------
// ForceDuration shortens EVERY cue that ends after d. With overlapping cues several of them do. Rule: each store of
// d into Item.EndAt (outside the literal of the filler) sits inside a loop over the cues (or in a helper called from
// such a loop): a single clip after the loop treats one cue only.
func ruleClipInsideLoop(p *Prog, l *Ledger, tier string) {
	const rule = "E14.M5f-clip-every-cue"
	const name = "Subtitles.ForceDuration"
	fn := anchor(p, l, rule, name)
	if fn == nil {
		return
	}
	n := 0
	for _, h := range p.Helpers(fn) {
		if fnPkg(h) != p.LibSSA {
			continue
		}
		for _, b := range h.Blocks {
			for _, ins := range b.Instrs {
				st, ok := ins.(*ssa.Store)
				if !ok {
					continue
				}
				if t, f := fieldOfAddr(st.Addr); t != "Item" || f != "EndAt" {
					continue
				}
				if fa, ok := st.Addr.(*ssa.FieldAddr); ok {
					if al, isAl := fa.X.(*ssa.Alloc); isAl && al.Heap {
						continue // the filler's literal
					}
				}
				n++
				site := p.siteIn(fn, st)
				key := l.Key(rule, name, "clip", "")
				inLoop := false
				for _, f2 := range []*ssa.Function{h, fn} {
					for _, li := range loopsOf(f2) {
						if li.blocks[st.Block()] || (site != nil && li.blocks[site.Block()]) {
							inLoop = true
						}
					}
				}
				if inLoop {
					l.Prove(rule, name, key, p.Pos(st.Pos()), "the clip of EndAt happens once per trip of a loop over the cues")
				} else {
					l.Fail(rule, name, key, p.Pos(st.Pos()), name+": EndAt is clipped at "+p.Pos(st.Pos())+" outside any loop over the cues: one cue is shortened, and with overlapping cues the others that end after d keep their end")
				}
			}
		}
	}
	l.Min(rule, n, 1)
}

// ---- E11 cli-fatal-conditions: the command line refuses nothing on a combination of parameters (C15/r11) --------
// Every documented operation must work through the command line for the parameters the library accepts. The library
// operations have no precondition that relates two parameters, or a parameter and the content of the file. Rule: the
// condition that decides a log.Fatal* / os.Exit in the CLI package compares ONE plain value (a flag, an error, a
// length, a lookup result) with a constant (0, "", nil, true/false), or two strings; a comparison of an arithmetic
// combination, or of two numeric parameters with each other, is a refusal the library does not have. (Which orderings
// against 0 a single flag may be refused for is the business of E11.cli-guards.)
func ruleCLIFatalConditions(p *Prog, l *Ledger, tier string) {
	const rule = "E11.cli-fatal-conditions"
	var plain func(v ssa.Value, depth int) bool
	plain = func(v ssa.Value, depth int) bool {
		if v == nil || depth > 6 {
			return false
		}
		switch x := v.(type) {
		case *ssa.Const, *ssa.Parameter, *ssa.Global, *ssa.FreeVar, *ssa.Call, *ssa.Extract, *ssa.Lookup, *ssa.Field, *ssa.Index, *ssa.TypeAssert, *ssa.MakeInterface:
			return true
		case *ssa.UnOp:
			if x.Op == token.MUL || x.Op == token.NOT {
				return true
			}
			return false // arithmetic negation
		case *ssa.Convert:
			return plain(x.X, depth+1)
		case *ssa.ChangeType:
			return plain(x.X, depth+1)
		case *ssa.Phi:
			for _, e := range x.Edges {
				if !plain(e, depth+1) {
					return false
				}
			}
			return true
		}
		return false
	}
	isConst := func(v ssa.Value) bool { _, ok := stripConv(v).(*ssa.Const); return ok }
	n := 0
	for _, fn := range p.CLIFns {
		for _, b := range fn.Blocks {
			fatal := false
			var fc *ssa.Call
			for _, ins := range b.Instrs {
				if c, ok := ins.(*ssa.Call); ok && isFatalCall(c) {
					fatal, fc = true, c
				}
			}
			if !fatal {
				continue
			}
			dcs := dominatingConds(b)
			if len(dcs) == 0 {
				continue
			}
			n++
			c := dcs[0].cond
			key := l.Key(rule, FnName(fn), "fatal", "")
			ok := true
			why := ""
			switch x := c.(type) {
			case *ssa.BinOp:
				switch {
				case isConst(x.X) && plain(x.Y, 0), isConst(x.Y) && plain(x.X, 0):
				case isStringT(x.X.Type()) && plain(x.X, 0) && plain(x.Y, 0):
				case !plain(x.X, 0) || !plain(x.Y, 0):
					ok, why = false, "an arithmetic combination of values"
				default:
					ok, why = false, "two parameters (or a parameter and the content of the file) with each other"
				}
			default:
				if !plain(c, 0) {
					ok, why = false, "a computed condition"
				}
			}
			if ok {
				l.Prove(rule, FnName(fn), key, p.Pos(fc.Pos()), "the fatal exit is decided by one plain value against a constant")
			} else {
				l.Fail(rule, FnName(fn), key, p.Pos(fc.Pos()), fmt.Sprintf("%s exits with a fatal error at %s on a condition that compares %s: the library operation has no such precondition, so parameter values it accepts are refused by the command line", FnName(fn), p.Pos(fc.Pos()), why))
			}
		}
	}
	l.Min(rule, n, 8)
}

// shortPacketTest: cond is len(x) < c for a slice parameter x of fn and a constant c no larger than the number of
// leading bytes of x that fn reads with constant indexes anyway (x[0] … x[c-1]).
func shortPacketTest(fn *ssa.Function, cond ssa.Value) bool {
	bo, ok := cond.(*ssa.BinOp)
	if !ok {
		return false
	}
	var lenV, cV ssa.Value
	switch bo.Op {
	case token.LSS:
		lenV, cV = bo.X, bo.Y
	case token.GTR:
		lenV, cV = bo.Y, bo.X
	default:
		return false
	}
	c, ok := constInt(stripConv(cV))
	if !ok {
		return false
	}
	call, ok := stripConv(lenV).(*ssa.Call)
	if !ok {
		return false
	}
	bi, ok := call.Call.Value.(*ssa.Builtin)
	if !ok || bi.Name() != "len" {
		return false
	}
	par, ok := call.Call.Args[0].(*ssa.Parameter)
	if !ok || par.Parent() != fn {
		return false
	}
	max := int64(-1)
	for _, r := range *par.Referrers() {
		if ia, ok := r.(*ssa.IndexAddr); ok {
			if k, ok := constInt(ia.Index); ok && k > max {
				max = k
			}
		}
	}
	return c <= max+1
}
