package chk

import (
	"fmt"
	"go/token"
	"go/types"
	"sort"
	"strings"

	"golang.org/x/tools/go/ssa"
)

// ---- E9-T3: GSI / TTI byte layouts agree between writer and reader ----------------------------------

type interval struct{ lo, hi int64 }

// sliceIntervals: constant intervals of parameter src that v is computed from.
func sliceIntervals(v ssa.Value, src *ssa.Parameter, total int64, seen map[ssa.Value]bool, out *[]interval) {
	if v == nil || seen[v] || len(seen) > 300 {
		return
	}
	seen[v] = true
	switch x := v.(type) {
	case *ssa.Slice:
		if x.X == ssa.Value(src) {
			lo, hi := int64(0), total
			if x.Low != nil {
				c, ok := constInt(x.Low)
				if !ok {
					return
				}
				lo = c
			}
			if x.High != nil {
				c, ok := constInt(x.High)
				if !ok {
					return
				}
				hi = c
			}
			*out = append(*out, interval{lo, hi})
			return
		}
	case *ssa.UnOp:
		if ia, ok := x.X.(*ssa.IndexAddr); ok && ia.X == ssa.Value(src) {
			if c, ok := constInt(ia.Index); ok {
				*out = append(*out, interval{c, c + 1})
			}
			return
		}
	}
	if ins, ok := v.(ssa.Instruction); ok {
		for _, op := range ins.Operands(nil) {
			if *op != nil {
				sliceIntervals(*op, src, total, seen, out)
			}
		}
		// array literals ([]byte{b[11]}): elements stored into the backing array
		if al, ok := v.(*ssa.Alloc); ok {
			for _, ref := range *al.Referrers() {
				if ia, ok := ref.(*ssa.IndexAddr); ok {
					for _, r2 := range *ia.Referrers() {
						if st, ok := r2.(*ssa.Store); ok {
							sliceIntervals(st.Val, src, total, seen, out)
						}
					}
				}
			}
		}
	}
}

// readerLayout: field → interval from the stores of fn into struct tname, reading parameter #k.
func readerLayout(fn *ssa.Function, tname string, k int, total int64) map[string]interval {
	out := map[string]interval{}
	for f, vals := range fieldStores(fn.Blocks, tname) {
		for _, v := range vals {
			var ivs []interval
			sliceIntervals(v, fn.Params[k], total, map[ssa.Value]bool{}, &ivs)
			if len(ivs) == 1 {
				out[f] = ivs[0]
			}
		}
	}
	// fields filled through their address: helper(string(b[lo:hi]), …, &g.F) and rows {string(b[lo:hi]), &g.F} of a
	// local table walked by a helper; the interval is the one the sibling arguments / sibling row fields are cut from
	fieldOf := func(v ssa.Value) (string, bool) {
		fa, ok := v.(*ssa.FieldAddr)
		if !ok {
			return "", false
		}
		pt, ok := fa.X.Type().Underlying().(*types.Pointer)
		if !ok {
			return "", false
		}
		nt, ok := pt.Elem().(*types.Named)
		if !ok || nt.Obj().Name() != tname {
			return "", false
		}
		return fieldName(fa.X.Type(), fa.Field), true
	}
	for _, b := range fn.Blocks {
		for _, ins := range b.Instrs {
			switch x := ins.(type) {
			case *ssa.Call:
				if x.Call.StaticCallee() == nil || len(x.Call.StaticCallee().Blocks) == 0 {
					continue
				}
				for i, arg := range x.Call.Args {
					f, ok := fieldOf(arg)
					if !ok {
						continue
					}
					if _, dup := out[f]; dup {
						continue
					}
					var ivs []interval
					for j, other := range x.Call.Args {
						if j != i {
							sliceIntervals(other, fn.Params[k], total, map[ssa.Value]bool{}, &ivs)
						}
					}
					if len(ivs) == 1 {
						out[f] = ivs[0]
					}
				}
			case *ssa.Store:
				f, ok := fieldOf(x.Val)
				if !ok {
					continue
				}
				cell, ok := x.Addr.(*ssa.FieldAddr)
				if !ok {
					continue
				}
				if _, dup := out[f]; dup {
					continue
				}
				var ivs []interval
				if refs := cell.X.Referrers(); refs != nil {
					for _, r := range *refs {
						sib, ok := r.(*ssa.FieldAddr)
						if !ok || sib == cell || sib.Field == cell.Field {
							continue
						}
						for _, r2 := range *sib.Referrers() {
							if st, ok := r2.(*ssa.Store); ok && st.Addr == ssa.Value(sib) {
								sliceIntervals(st.Val, fn.Params[k], total, map[ssa.Value]bool{}, &ivs)
							}
						}
					}
				}
				if len(ivs) == 1 {
					out[f] = ivs[0]
				}
			}
		}
	}
	return out
}

type layoutPart struct {
	field string
	width int64
	pos   string
}

// scratchField: v is (a slice of) a scratch buffer; the field written into it by the latest
// preceding binary.PutUintNN call.
func scratchField(v ssa.Value, before ssa.Instruction, tname string) string {
	for {
		if sl, ok := v.(*ssa.Slice); ok {
			v = sl.X
			continue
		}
		break
	}
	var refs []ssa.Instruction
	var ms ssa.Value
	switch y := v.(type) {
	case *ssa.MakeSlice:
		ms = y
		refs = *y.Referrers()
	case *ssa.Alloc:
		// var b [2]byte; PutUint16(b[:], …); write(b[:]): the calls that receive a slice of the array
		ms = y
		for _, r := range *y.Referrers() {
			if sl, ok := r.(*ssa.Slice); ok {
				refs = append(refs, *sl.Referrers()...)
			}
		}
	default:
		return ""
	}
	var best *ssa.Call
	for _, ref := range refs {
		c, ok := ref.(*ssa.Call)
		if !ok || c.Pos() >= before.Pos() {
			continue
		}
		if sc := c.Call.StaticCallee(); sc == nil || !strings.Contains(sc.Name(), "PutUint") {
			continue
		}
		if best == nil || c.Pos() > best.Pos() {
			best = c
		}
	}
	if best == nil {
		return ""
	}
	s := strset{}
	for _, a := range best.Call.Args {
		if sl, ok := a.(*ssa.Slice); ok && sl.X == ms {
			continue
		}
		if a != ms {
			traceField(a, tname, map[ssa.Value]bool{}, s)
		}
	}
	f, _ := oneOf(s)
	return f
}

// fixedResultLen: length of the []byte a straight-line function returns by appending single bytes.
func fixedResultLen(fn *ssa.Function) (int64, bool) {
	if fn != nil && len(fn.Blocks) > 1 {
		return fixedResultLenLoop(fn)
	}
	if fn == nil || len(fn.Blocks) != 1 {
		return 0, false
	}
	// return []byte{a, b, c, d}: a literal of N explicit elements
	if r, ok := fn.Blocks[0].Instrs[len(fn.Blocks[0].Instrs)-1].(*ssa.Return); ok && len(r.Results) == 1 {
		if sl, ok := r.Results[0].(*ssa.Slice); ok && sl.Low == nil && sl.High == nil {
			if al, ok := sl.X.(*ssa.Alloc); ok {
				if at, ok := al.Type().(*types.Pointer).Elem().Underlying().(*types.Array); ok {
					return at.Len(), true
				}
			}
		}
	}
	n := int64(0)
	for _, ins := range fn.Blocks[0].Instrs {
		if c, ok := ins.(*ssa.Call); ok {
			if b, ok := c.Call.Value.(*ssa.Builtin); ok && b.Name() == "append" {
				if sl, ok := c.Call.Args[1].(*ssa.Slice); ok {
					if al, ok := sl.X.(*ssa.Alloc); ok {
						n += al.Type().(*types.Pointer).Elem().Underlying().(*types.Array).Len()
						continue
					}
				}
				return 0, false
			}
		}
	}
	return n, n > 0
}

// writerLayout: ordered parts appended to the result of fn (a `bytes()` method of struct tname).
func writerLayout(p *Prog, fn *ssa.Function, tname string) ([]layoutPart, bool) {
	var calls []*ssa.Call
	byteArg := map[*ssa.Call]bool{} // (*bytes.Buffer).WriteByte: one byte
	for _, b := range fn.Blocks {
		for _, ins := range b.Instrs {
			if c, ok := ins.(*ssa.Call); ok {
				if bi, ok := c.Call.Value.(*ssa.Builtin); ok && bi.Name() == "append" {
					calls = append(calls, c)
				}
				// the same sequence written into a bytes.Buffer
				switch calleeName(&c.Call) {
				case "(*bytes.Buffer).Write":
					calls = append(calls, c)
				case "(*bytes.Buffer).WriteByte":
					calls = append(calls, c)
					byteArg[c] = true
				}
			}
		}
	}
	sort.Slice(calls, func(i, j int) bool { return calls[i].Pos() < calls[j].Pos() })
	var parts []layoutPart
	for _, c := range calls {
		arg := c.Call.Args[1]
		part := layoutPart{pos: p.Pos(c.Pos())}
		if byteArg[c] {
			part.width = 1
			s := strset{}
			traceField(arg, tname, map[ssa.Value]bool{}, s)
			if ac, ok := arg.(*ssa.Call); ok {
				for _, a := range ac.Call.Args {
					traceField(a, tname, map[ssa.Value]bool{}, s)
				}
			}
			part.field, _ = oneOf(s)
			parts = append(parts, part)
			continue
		}
		fieldOf := func(v ssa.Value) string {
			if f := scratchField(v, c, tname); f != "" {
				return f
			}
			s := strset{}
			traceField(v, tname, map[ssa.Value]bool{}, s)
			f, _ := oneOf(s)
			return f
		}
		switch x := arg.(type) {
		case *ssa.Call:
			sc := x.Call.StaticCallee()
			if sc == nil {
				return nil, false
			}
			switch {
			case sc.String() == "github.com/asticode/go-astikit.BytesPad":
				w, ok := intConstOrSum(x.Call.Args[2])
				if !ok {
					return nil, false
				}
				part.width = w
				part.field = fieldOf(x.Call.Args[0])
			case p.inScope(sc):
				w, ok := fixedResultLen(sc)
				if !ok {
					return nil, false
				}
				part.width = w
				s := strset{}
				for _, a := range x.Call.Args {
					traceField(a, tname, map[ssa.Value]bool{}, s)
				}
				part.field, _ = oneOf(s)
			default:
				return nil, false
			}
		case *ssa.Slice:
			if al, ok := x.X.(*ssa.Alloc); ok { // explicit elements
				part.width = al.Type().(*types.Pointer).Elem().Underlying().(*types.Array).Len()
				s := strset{}
				for _, ref := range *al.Referrers() {
					if ia, ok := ref.(*ssa.IndexAddr); ok {
						for _, r2 := range *ia.Referrers() {
							if st, ok := r2.(*ssa.Store); ok {
								traceField(st.Val, tname, map[ssa.Value]bool{}, s)
							}
						}
					}
				}
				part.field, _ = oneOf(s)
				if part.field == "" {
					part.field = scratchField(x, c, tname) // a scratch array filled by binary.PutUintNN
				}
			} else {
				return nil, false
			}
		case *ssa.MakeSlice:
			w, ok := constInt(x.Len)
			if !ok {
				return nil, false
			}
			part.width = w
			part.field = scratchField(x, c, tname)
		default:
			return nil, false
		}
		parts = append(parts, part)
	}
	return parts, len(parts) > 0
}

func intConstOrSum(v ssa.Value) (int64, bool) {
	if c, ok := constInt(v); ok {
		return c, true
	}
	return 0, false
}

func checkLayout(p *Prog, l *Ledger, rule, what string, parts []layoutPart, reader map[string]interval, total int64, minRows int) {
	off := int64(0)
	n := 0
	wmap := map[string]interval{}
	for _, pt := range parts {
		iv := interval{off, off + pt.width}
		off += pt.width
		if pt.field != "" {
			wmap[pt.field] = iv
		}
	}
	key := rule + "|" + what + "|total"
	if off == total {
		l.Prove(rule, "", key, "", fmt.Sprintf("the %s writer emits exactly %d bytes in %d parts", what, total, len(parts)))
	} else {
		l.Fail(rule, "", key, "", fmt.Sprintf("the %s writer emits %d bytes, the block size is %d", what, off, total))
	}
	var fields []string
	for f := range wmap {
		fields = append(fields, f)
	}
	sort.Strings(fields)
	for _, f := range fields {
		r, ok := reader[f]
		if !ok {
			continue
		}
		n++
		k2 := rule + "|" + what + "|" + f
		w := wmap[f]
		if w == r {
			l.Prove(rule, "", k2, "", fmt.Sprintf("%s.%s occupies bytes [%d,%d) on both sides", what, f, w.lo, w.hi))
		} else {
			l.Fail(rule, "", k2, "", fmt.Sprintf("%s.%s is written at bytes [%d,%d) but read from bytes [%d,%d)", what, f, w.lo, w.hi, r.lo, r.hi))
		}
	}
	// reader intervals must not overlap
	type named struct {
		f  string
		iv interval
	}
	var rs []named
	for f, iv := range reader {
		rs = append(rs, named{f, iv})
	}
	sort.Slice(rs, func(i, j int) bool {
		return rs[i].iv.lo < rs[j].iv.lo || (rs[i].iv.lo == rs[j].iv.lo && rs[i].f < rs[j].f)
	})
	for i := 1; i < len(rs); i++ {
		if rs[i].iv.lo < rs[i-1].iv.hi {
			l.Fail(rule, "", rule+"|"+what+"|overlap|"+rs[i-1].f+"|"+rs[i].f, "", fmt.Sprintf("the %s reader takes %s from [%d,%d) and %s from [%d,%d): the fields overlap", what, rs[i-1].f, rs[i-1].iv.lo, rs[i-1].iv.hi, rs[i].f, rs[i].iv.lo, rs[i].iv.hi))
		}
	}
	l.Min(rule+"."+what, n, minRows)
}

func ruleSTLLayouts(p *Prog, l *Ledger, tier string) {
	const rule = "E9.T3-stl-layouts"
	gw := anchor(p, l, rule, "gsiBlock.bytes")
	gr := anchor(p, l, rule, "parseGSIBlock")
	tw := anchor(p, l, rule, "ttiBlock.bytes")
	tr := anchor(p, l, rule, "parseTTIBlock")
	if gw == nil || gr == nil || tw == nil || tr == nil {
		return
	}
	sizeOf := func(name string) int64 {
		if c, ok := p.Lib.Types.Scope().Lookup(name).(*types.Const); ok {
			if v, ok := constantInt64(c); ok {
				return v
			}
		}
		return -1
	}
	gsi, tti := sizeOf("stlBlockSizeGSI"), sizeOf("stlBlockSizeTTI")
	if gsi <= 0 || tti <= 0 {
		l.Undecide(rule, "", rule+"|sizes", "", "block size constants not found")
		return
	}
	if parts, ok := writerLayout(p, gw, "gsiBlock"); ok {
		checkLayout(p, l, rule, "GSI", parts, readerLayout(gr, "gsiBlock", 0, gsi), gsi, 24)
	} else {
		l.Undecide(rule, "gsiBlock.bytes", rule+"|GSI|extract", p.Pos(gw.Pos()), "extraction-below-minimum: the GSI writer is no longer a sequence of constant-width appends")
	}
	ttiParts, ttiOK := writerLayout(p, tw, "ttiBlock")
	if !ttiOK {
		// the block may be laid out by a method of the same type that bytes calls (once per block it emits)
		for _, b := range tw.Blocks {
			for _, ins := range b.Instrs {
				c, ok := ins.(*ssa.Call)
				if !ok || ttiOK {
					continue
				}
				sc := c.Call.StaticCallee()
				if sc == nil || fnPkg(sc) != p.LibSSA || sc.Signature.Recv() == nil || len(c.Call.Args) == 0 || c.Call.Args[0] != ssa.Value(tw.Params[0]) {
					continue
				}
				if parts, ok := writerLayout(p, sc, "ttiBlock"); ok {
					ttiParts, ttiOK = parts, true
				}
			}
		}
	}
	if parts, ok := ttiParts, ttiOK; ok {
		checkLayout(p, l, rule, "TTI", parts, readerLayout(tr, "ttiBlock", 0, tti), tti, 9)
	} else {
		l.Undecide(rule, "ttiBlock.bytes", rule+"|TTI|extract", p.Pos(tw.Pos()), "extraction-below-minimum: the TTI writer is no longer a sequence of constant-width appends")
	}
}

// fixedResultLenLoop: the same for a function with one range loop over a collection of constant
// length N (a package-level slice or array literal, an array value): appends in blocks that every
// trip goes through count N times, appends in blocks every call goes through count once; any other
// append makes the length variable.
func fixedResultLenLoop(fn *ssa.Function) (int64, bool) {
	loops := loopsOf(fn)
	if len(loops) != 1 || loops[0].header.Comment != "rangeindex.loop" {
		return 0, false
	}
	li := loops[0]
	// trip count: the bound the range index is compared with
	trips := int64(-1)
	for _, ins := range li.header.Instrs {
		bo, ok := ins.(*ssa.BinOp)
		if !ok || bo.Op != token.LSS {
			continue
		}
		if c, ok := constInt(bo.Y); ok {
			trips = c
		} else if lc, ok := bo.Y.(*ssa.Call); ok {
			if bi, ok := lc.Call.Value.(*ssa.Builtin); ok && bi.Name() == "len" {
				if u, ok := lc.Call.Args[0].(*ssa.UnOp); ok {
					if g, ok := u.X.(*ssa.Global); ok {
						if n, ok := globalLiteralLen(fn.Prog, g); ok {
							trips = n
						}
					}
				}
			}
		}
	}
	if trips < 0 {
		return 0, false
	}
	var ret *ssa.BasicBlock
	for _, b := range fn.Blocks {
		if _, ok := b.Instrs[len(b.Instrs)-1].(*ssa.Return); ok {
			if ret != nil {
				return 0, false
			}
			ret = b
		}
	}
	if ret == nil {
		return 0, false
	}
	n := int64(0)
	for _, b := range fn.Blocks {
		for _, ins := range b.Instrs {
			c, ok := ins.(*ssa.Call)
			if !ok {
				continue
			}
			bi, ok := c.Call.Value.(*ssa.Builtin)
			if !ok || bi.Name() != "append" {
				continue
			}
			sl, ok := c.Call.Args[1].(*ssa.Slice)
			if !ok {
				return 0, false
			}
			al, ok := sl.X.(*ssa.Alloc)
			if !ok {
				return 0, false
			}
			w := al.Type().(*types.Pointer).Elem().Underlying().(*types.Array).Len()
			switch {
			case li.blocks[b]:
				for _, lt := range li.latch {
					if !b.Dominates(lt) {
						return 0, false
					}
				}
				n += w * trips
			case b.Dominates(ret):
				n += w
			default:
				return 0, false
			}
		}
	}
	return n, n > 0
}

// globalLiteralLen: the length of a package-level slice initialised once, in init, from a literal.
func globalLiteralLen(prog *ssa.Program, g *ssa.Global) (int64, bool) {
	if g.Pkg == nil {
		return 0, false
	}
	init := g.Pkg.Func("init")
	if init == nil {
		return 0, false
	}
	n, stores := int64(-1), 0
	for _, b := range init.Blocks {
		for _, ins := range b.Instrs {
			st, ok := ins.(*ssa.Store)
			if !ok || st.Addr != ssa.Value(g) {
				continue
			}
			stores++
			if sl, ok := st.Val.(*ssa.Slice); ok && sl.Low == nil && sl.High == nil {
				if al, ok := sl.X.(*ssa.Alloc); ok {
					if at, ok := al.Type().(*types.Pointer).Elem().Underlying().(*types.Array); ok {
						n = at.Len()
					}
				}
			}
		}
	}
	return n, stores == 1 && n >= 0
}
