package chk

import (
	"fmt"
	"os"

	"golang.org/x/tools/go/ssa"
)

// Dump prints engine facts for debugging.
func Dump(p *Prog, what string) {
	switch what {
	case "fns":
		for _, f := range p.LibFns {
			fmt.Println(FnName(f))
		}
		for _, f := range p.CLIFns {
			fmt.Println(FnName(f))
		}
	case "effects":
		e := ComputeEffects(p)
		for _, fn := range append(append([]*ssa.Function{}, p.LibFns...), p.CLIFns...) {
			sum := e.Sum[fn]
			fmt.Printf("%s: ret direct=%v fresh=%v content=%v unknown=%v\n", FnName(fn), sum.RetDirect.sorted(), sum.RetFresh, sum.RetContent.sorted(), sum.Unknown.sorted())
			for _, ef := range sortedEffects(sum.Effects) {
				fmt.Printf("    %-6s %-45s at %s in %s via %s val=%v\n", ef.Root, ef.Loc, p.Pos(ef.Pos), ef.Fn, ef.Via, ef.Val.sorted())
			}
		}
	case "scope":
		for _, f := range c08Scope(p, &Ledger{keyCount: map[string]int{}, residue: map[string]string{}, known: map[string]string{}}, "x", "quick") {
			fmt.Println(FnName(f))
		}
	case "ext":
		dumpExtCalls(p)
	default:
		if len(what) > 6 && what[:6] == "loops:" {
			DumpLoops(p, what[6:])
			return
		}
		if len(what) > 7 && what[:7] == "params:" {
			DumpParams(p, what[7:])
			return
		}
		if len(what) > 4 && what[:4] == "ssa:" {
			if fn := p.Fn(what[4:]); fn != nil {
				fn.WriteTo(os.Stdout)
			} else {
				fmt.Println("no such function")
			}
			return
		}
		if len(what) > 7 && what[:7] == "bounds:" {
			DumpBounds(p, what[7:])
			return
		}
		fmt.Println("unknown dump", what)
	}
}

// DumpBounds prints every bounds site of one function with its verdict (debugging aid).
func DumpBounds(p *Prog, name string) {
	a := NewNilAnalysis(p)
	fn := p.Fn(name)
	if fn == nil {
		fmt.Println("no such function")
		return
	}
	for _, s := range boundSites(fn) {
		ok, why := a.proveSite(fn, s)
		fmt.Printf("%s %s %s ok=%v %s\n", p.Pos(s.ins.Pos()), s.kind, siteDesc(s), ok, why)
		if os.Getenv("DUMPGRAPH") != "" {
			a.cur, a.curFn = s.ins, fn
			g := a.newGraph(fn, s.ins)
			a.containerLen(g, s.x)
			for _, v := range []ssa.Value{s.idx, s.lo, s.hi} {
				if v != nil {
					g.define(v, 0)
				}
			}
			for b, outs := range g.edges {
				for a2, c := range outs {
					fmt.Printf("      %s - %s <= %d\n", a2, b, c)
				}
			}
			for k := range a.at[s.ins] {
				fmt.Println("      fact", k)
			}
		}
	}
}

func DumpParams(p *Prog, name string) {
	a := NewNilAnalysis(p)
	fn := p.Fn(name)
	s := a.sum[fn]
	fmt.Println("paramNonNil", s.paramNonNil, "paramIntLo", s.paramIntLo, "paramLenLo", s.paramLenLo, "paramFields", s.paramFields)
}

func DumpLoops(p *Prog, name string) {
	fn := p.Fn(name)
	pf := progressFns(p)
	for _, li := range loopsOf(fn) {
		c, why := classifyLoop(p, fn, li, pf)
		fmt.Println(blockPos(p, li.header), loopDesc(li), "class=", c, why)
		for _, ins := range li.header.Instrs {
			if ph, ok := ins.(*ssa.Phi); ok {
				fmt.Println("   phi", ph.Name(), ph.Comment, "monotone=", monotone(ph, li), ph.String())
			}
			if iff, ok := ins.(*ssa.If); ok {
				fmt.Println("   if", iff.Cond.String())
				if bo, ok := iff.Cond.(*ssa.BinOp); ok {
					fmt.Println("   invariant X", loopInvariant(bo.X, li, fn, p), "Y", loopInvariant(bo.Y, li, fn, p))
				}
			}
		}
	}
}
