package chk

import (
	"fmt"

	"golang.org/x/tools/go/ssa"
)

// Dump prints engine facts for debugging.
func Dump(p *Prog, what string) {
	switch what {
	case "fns":
		for _, f := range p.LibFns {
			fmt.Println(FnName(f))
		}
		for _, f := range p.CLIFns {
			fmt.Println(FnName(f))
		}
	case "effects":
		e := ComputeEffects(p)
		for _, fn := range append(append([]*ssa.Function{}, p.LibFns...), p.CLIFns...) {
			sum := e.Sum[fn]
			fmt.Printf("%s: ret direct=%v fresh=%v content=%v unknown=%v\n", FnName(fn), sum.RetDirect.sorted(), sum.RetFresh, sum.RetContent.sorted(), sum.Unknown.sorted())
			for _, ef := range sortedEffects(sum.Effects) {
				fmt.Printf("    %-6s %-45s at %s in %s via %s val=%v\n", ef.Root, ef.Loc, p.Pos(ef.Pos), ef.Fn, ef.Via, ef.Val.sorted())
			}
		}
	case "ext":
		dumpExtCalls(p)
	default:
		fmt.Println("unknown dump", what)
	}
}
