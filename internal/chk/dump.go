package chk

import "fmt"

// Dump prints engine facts for debugging.
func Dump(p *Prog, what string) {
	switch what {
	case "fns":
		for _, f := range p.LibFns {
			fmt.Println(FnName(f))
		}
		for _, f := range p.CLIFns {
			fmt.Println(FnName(f))
		}
	default:
		fmt.Println("unknown dump", what)
	}
}
