package chk

import (
	"go/token"

	"golang.org/x/tools/go/ssa"
)

// Evaluation of astikit.BiMap tables built in package initialisers:
//   var m = astikit.NewBiMap().Set(k1, v1).Set(k2, v2)…
//   var t = map[K]*astikit.BiMap{ key: astikit.NewBiMap().Set(…)… }

type biPair struct {
	k, v ssa.Value // operands boxed into the interface{} parameters of Set
	pos  token.Pos
}

type biMaps struct {
	byGlobal    map[string][]biPair   // package-level *BiMap variables
	byGlobalMap map[string][][]biPair // package-level maps whose values are *BiMap
}

func isBiMapMethod(c *ssa.CallCommon, name string) bool {
	sc := c.StaticCallee()
	return sc != nil && sc.String() == "(*github.com/asticode/go-astikit.BiMap)."+name
}

// chainOf walks a Set chain backwards from its last call to NewBiMap().
func chainOf(v ssa.Value) ([]biPair, bool) {
	var out []biPair
	for {
		c, ok := v.(*ssa.Call)
		if !ok {
			return nil, false
		}
		if sc := c.Call.StaticCallee(); sc != nil && sc.String() == "github.com/asticode/go-astikit.NewBiMap" {
			// reverse into source order
			for i, j := 0, len(out)-1; i < j; i, j = i+1, j-1 {
				out[i], out[j] = out[j], out[i]
			}
			return out, true
		}
		if !isBiMapMethod(&c.Call, "Set") {
			return nil, false
		}
		out = append(out, biPair{k: stripIface(c.Call.Args[1]), v: stripIface(c.Call.Args[2]), pos: c.Pos()})
		v = c.Call.Args[0]
	}
}

func (p *Prog) BiMaps() *biMaps {
	if p.bimaps != nil {
		return p.bimaps
	}
	bm := &biMaps{byGlobal: map[string][]biPair{}, byGlobalMap: map[string][][]biPair{}}
	init := p.LibSSA.Func("init")
	if init != nil {
		for _, b := range init.Blocks {
			for _, ins := range b.Instrs {
				switch x := ins.(type) {
				case *ssa.Store:
					if g, ok := x.Addr.(*ssa.Global); ok {
						if ch, ok := chainOf(x.Val); ok {
							bm.byGlobal[g.Name()] = ch
						}
					}
				case *ssa.MapUpdate:
					if ch, ok := chainOf(x.Value); ok {
						// find the global the map literal is stored into
						for _, ref := range *x.Map.Referrers() {
							if st, ok := ref.(*ssa.Store); ok {
								if g, ok := st.Addr.(*ssa.Global); ok {
									bm.byGlobalMap[g.Name()] = append(bm.byGlobalMap[g.Name()], ch)
								}
							}
						}
					}
				}
			}
		}
	}
	p.bimaps = bm
	return bm
}

// sourcesOf resolves a *BiMap receiver value to the tables it may denote.
func (p *Prog) biMapSourcesOf(recv ssa.Value, depth int) ([][]biPair, bool) {
	bm := p.BiMaps()
	if depth > 4 {
		return nil, false
	}
	switch x := recv.(type) {
	case *ssa.UnOp:
		if x.Op != token.MUL {
			return nil, false
		}
		switch ad := x.X.(type) {
		case *ssa.Global:
			if ch, ok := bm.byGlobal[ad.Name()]; ok {
				return [][]biPair{ch}, true
			}
		case *ssa.FieldAddr:
			// every value stored into that field anywhere in the package
			var out [][]biPair
			n := 0
			fname := fieldName(ad.X.Type(), ad.Field)
			tname := typeStr(ad.X.Type())
			for _, fn := range p.LibFns {
				for _, b := range fn.Blocks {
					for _, ins := range b.Instrs {
						st, ok := ins.(*ssa.Store)
						if !ok {
							continue
						}
						fa, ok := st.Addr.(*ssa.FieldAddr)
						if !ok || fieldName(fa.X.Type(), fa.Field) != fname || typeStr(fa.X.Type()) != tname {
							continue
						}
						n++
						src, ok := p.biMapSourcesOf(st.Val, depth+1)
						if !ok {
							return nil, false
						}
						out = append(out, src...)
					}
				}
			}
			return out, n > 0
		}
	case *ssa.Extract:
		if lk, ok := x.Tuple.(*ssa.Lookup); ok && x.Index == 0 {
			return p.biMapSourcesOf(lk, depth+1)
		}
	case *ssa.Lookup:
		if u, ok := x.X.(*ssa.UnOp); ok && u.Op == token.MUL {
			if g, ok := u.X.(*ssa.Global); ok {
				if chs, ok := bm.byGlobalMap[g.Name()]; ok {
					return chs, true
				}
			}
		}
	case *ssa.Phi:
		var out [][]biPair
		for _, e := range x.Edges {
			src, ok := p.biMapSourcesOf(e, depth+1)
			if !ok {
				return nil, false
			}
			out = append(out, src...)
		}
		return out, true
	}
	return nil, false
}

// biMapLookup describes v when it is the value result of m.Get(k) / m.GetInverse(k).
func biMapLookup(v ssa.Value) (call *ssa.Call, inverse bool, ok bool) {
	ex, isEx := v.(*ssa.Extract)
	if !isEx || ex.Index != 0 {
		return nil, false, false
	}
	c, isCall := ex.Tuple.(*ssa.Call)
	if !isCall {
		return nil, false, false
	}
	switch {
	case isBiMapMethod(&c.Call, "Get"):
		return c, false, true
	case isBiMapMethod(&c.Call, "GetInverse"):
		return c, true, true
	}
	return nil, false, false
}
