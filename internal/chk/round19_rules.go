package chk

import (
	"go/types"

	"golang.org/x/tools/go/ssa"
)

// Rules added after the nineteenth round of seeded changes.

// ---- E2.support-ssa-format: the column table handed to the SSA line parsers is non-empty (C08/r19) ---------------
// newSSAEventFromString slices items[len(format)-1:]; with an empty table that is
// items[-1:].  The residue entry for its two sites rests on the reader's "no format provided" test; this rule
// checks that test: at every call of a library function that receives a map[int]string column table as a
// parameter and computes len(table)-1 from it, len(argument) ≥ 1 is established by dominating tests.
func ruleSupportSSAFormat(p *Prog, l *Ledger, tier string) {
	const rule = "E2.support-ssa-format"
	a := NewNilAnalysis(p)
	n := 0
	fns := p.ReaderClosure(l, rule)
	for _, callee := range fns {
		for pi, par := range callee.Params {
			m, ok := par.Type().Underlying().(*types.Map)
			if !ok || !usesLenMinusOne(par) {
				continue
			}
			_ = m
			for _, caller := range fns {
				for _, c := range callsTo(caller, FnName(callee)) {
					if pi >= len(c.Call.Args) {
						continue
					}
					n++
					arg := c.Call.Args[pi]
					key := l.Key(rule, FnName(caller), FnName(callee), par.Name())
					a.cur, a.curFn = c, caller
					g := a.newGraph(caller, c)
					g.defineLen(arg, 0)
					ok := g.proveLE(zeroTerm, 1, "len("+a.regKey(arg)+")", 0)
					a.cur, a.curFn = nil, nil
					if ok {
						l.Prove(rule, FnName(caller), key, p.Pos(c.Pos()), "len("+par.Name()+") ≥ 1 is established before "+FnName(callee)+" is called, so len("+par.Name()+")-1 is a valid index there")
					} else {
						l.Fail(rule, FnName(caller), key, p.Pos(c.Pos()), FnName(caller)+" calls "+FnName(callee)+" with a column table that is not shown to be non-empty (no dominating test of len("+par.Name()+") against zero): "+FnName(callee)+" computes len("+par.Name()+")-1 and slices with it, which panics for an empty table (a Format line without column names)")
					}
				}
			}
		}
	}
	if n == 0 {
		l.Note("E2.support-ssa-format: no library function computes len(table)-1 of a map parameter; nothing to support")
	}
}

// usesLenMinusOne: the function computes len(par) - 1.
func usesLenMinusOne(par *ssa.Parameter) bool {
	for _, r := range *par.Referrers() {
		c, ok := r.(*ssa.Call)
		if !ok {
			continue
		}
		if bi, ok := c.Call.Value.(*ssa.Builtin); !ok || bi.Name() != "len" {
			continue
		}
		for _, u := range *c.Referrers() {
			if bo, ok := u.(*ssa.BinOp); ok && bo.Op.String() == "-" && bo.X == ssa.Value(c) {
				if k, ok := bo.Y.(*ssa.Const); ok && k.Value != nil && k.Int64() == 1 {
					return true
				}
			}
		}
	}
	return false
}

// ---- E14.M11 the correction writes no constant boundary (C15/r19) -------------------------------------------------
// Every boundary ApplyLinearCorrection writes is the affine image of the boundary it read.  A helper shared with Add
// that clamps the start at zero stores a constant into StartAt on one path: a cue straddling the origin after the
// correction is then no longer on the line.  Rule: in the library functions reachable from ApplyLinearCorrection no
// store into Item.StartAt / Item.EndAt has a constant as its value.
func ruleLinearNoConstantBoundary(p *Prog, l *Ledger, tier string) {
	const rule = "E14.M11-linear-no-constant-boundary"
	const name = "Subtitles.ApplyLinearCorrection"
	fn := anchor(p, l, rule, name)
	if fn == nil {
		return
	}
	key := l.Key(rule, name, "boundaries", "")
	n := 0
	for _, f := range p.Closure([]*ssa.Function{fn}) {
		for _, b := range f.Blocks {
			for _, ins := range b.Instrs {
				st, ok := ins.(*ssa.Store)
				if !ok {
					continue
				}
				// a boundary is reached through Item.StartAt / Item.EndAt or through a *time.Duration taken from them;
				// local variables (Alloc) are not boundaries
				if _, isLocal := st.Addr.(*ssa.Alloc); isLocal {
					continue
				}
				fld := "boundary (through a *time.Duration)"
				if fa, ok := st.Addr.(*ssa.FieldAddr); ok {
					if !isPtrToNamed(fa.X.Type(), "Item") {
						continue
					}
					fld = fieldName(fa.X.Type(), fa.Field)
					if fld != "StartAt" && fld != "EndAt" {
						continue
					}
				} else if pt, ok := st.Addr.Type().Underlying().(*types.Pointer); !ok || pt.Elem().String() != "time.Duration" {
					continue
				}
				n++
				if _, isConst := stripConv(st.Val).(*ssa.Const); isConst {
					l.Fail(rule, FnName(f), key, p.Pos(st.Pos()), FnName(f)+" (reached from ApplyLinearCorrection) stores a constant into Item "+fld+": a boundary written by the correction has to be the affine image of the boundary read (a clamp at zero moves a cue that straddles the origin off the line)")
					return
				}
			}
		}
	}
	l.Prove(rule, name, key, p.Pos(fn.Pos()), "no boundary store reached from ApplyLinearCorrection has a constant value")
	if n == 0 {
		l.Note("E14.M11: no store into a cue boundary found under ApplyLinearCorrection (boundaries written some other way)")
	}
}
