package chk

import (
	"go/types"

	"golang.org/x/tools/go/ssa"
)

// Rules added after the nineteenth round of seeded changes.

// ---- E2.support-ssa-format: the column table handed to the SSA line parsers is non-empty (C08/r19) ---------------
// newSSAEventFromString slices items[len(format)-1:]; with an empty table that is
// items[-1:].  The residue entry for its two sites rests on the reader's "no format provided" test; this rule
// checks that test: at every call of a library function that receives a map[int]string column table as a
// parameter and computes len(table)-1 from it, len(argument) ≥ 1 is established by dominating tests.
func ruleSupportSSAFormat(p *Prog, l *Ledger, tier string) {
	const rule = "E2.support-ssa-format"
	a := NewNilAnalysis(p)
	n := 0
	fns := p.ReaderClosure(l, rule)
	for _, callee := range fns {
		for pi, par := range callee.Params {
			m, ok := par.Type().Underlying().(*types.Map)
			if !ok || !usesLenMinusOne(par) {
				continue
			}
			_ = m
			for _, caller := range fns {
				for _, c := range callsTo(caller, FnName(callee)) {
					if pi >= len(c.Call.Args) {
						continue
					}
					n++
					arg := c.Call.Args[pi]
					key := l.Key(rule, FnName(caller), FnName(callee), par.Name())
					a.cur, a.curFn = c, caller
					g := a.newGraph(caller, c)
					g.defineLen(arg, 0)
					ok := g.proveLE(zeroTerm, 1, "len("+a.regKey(arg)+")", 0)
					a.cur, a.curFn = nil, nil
					if ok {
						l.Prove(rule, FnName(caller), key, p.Pos(c.Pos()), "len("+par.Name()+") ≥ 1 is established before "+FnName(callee)+" is called, so len("+par.Name()+")-1 is a valid index there")
					} else {
						l.Fail(rule, FnName(caller), key, p.Pos(c.Pos()), FnName(caller)+" calls "+FnName(callee)+" with a column table that is not shown to be non-empty (no dominating test of len("+par.Name()+") against zero): "+FnName(callee)+" computes len("+par.Name()+")-1 and slices with it, which panics for an empty table (a Format line without column names)")
					}
				}
			}
		}
	}
	if n == 0 {
		l.Note("E2.support-ssa-format: no library function computes len(table)-1 of a map parameter; nothing to support")
	}
}

// usesLenMinusOne: the function computes len(par) - 1.
func usesLenMinusOne(par *ssa.Parameter) bool {
	for _, r := range *par.Referrers() {
		c, ok := r.(*ssa.Call)
		if !ok {
			continue
		}
		if bi, ok := c.Call.Value.(*ssa.Builtin); !ok || bi.Name() != "len" {
			continue
		}
		for _, u := range *c.Referrers() {
			if bo, ok := u.(*ssa.BinOp); ok && bo.Op.String() == "-" && bo.X == ssa.Value(c) {
				if k, ok := bo.Y.(*ssa.Const); ok && k.Value != nil && k.Int64() == 1 {
					return true
				}
			}
		}
	}
	return false
}
