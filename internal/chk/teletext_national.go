package chk

import (
	"fmt"
	"go/token"
	"go/types"
	"sort"

	"golang.org/x/tools/go/ssa"
)

// ---- E9-T6 national option installation (added after seeded change C06/2) ---------------------------
// ETS 300 706 §15.6.2 (table 36): the 13 characters of a national option sub-set replace the G0
// positions 2/3 2/4 4/0 5/B 5/C 5/D 5/E 5/F 6/0 7/B 7/C 7/D 7/E (minus 0x20 in the 96-entry
// table), in that order. updateCharset installs them; the rule evaluates which (G0 position ←
// sub-set index) pairs its stores / copies cover and compares them with the table of the standard.
// Two shapes are evaluated: an indexed loop through a constant position array, and copy() calls
// between constant-bounded slices. Anything else is undecided.
var etsNationalPositions = [13]int64{0x03, 0x04, 0x20, 0x3b, 0x3c, 0x3d, 0x3e, 0x3f, 0x40, 0x5b, 0x5c, 0x5d, 0x5e}

// globalIntArrayValues: the elements of a package-level integer array written only by constant stores in init.
func (a *NilAnalysis) globalIntArrayValues(gl *ssa.Global) ([]int64, bool) {
	if _, _, ok := a.globalIntArray(gl); !ok {
		return nil, false
	}
	at := gl.Type().(*types.Pointer).Elem().Underlying().(*types.Array)
	out := make([]int64, at.Len())
	init := gl.Pkg.Func("init")
	for _, b := range init.Blocks {
		for _, ins := range b.Instrs {
			st, ok := ins.(*ssa.Store)
			if !ok {
				continue
			}
			ia, ok := st.Addr.(*ssa.IndexAddr)
			if !ok || ia.X != ssa.Value(gl) {
				continue
			}
			i, ok1 := constInt(ia.Index)
			v, ok2 := constInt(st.Val)
			if !ok1 || !ok2 || i < 0 || i >= at.Len() {
				return nil, false
			}
			out[i] = v
		}
	}
	return out, true
}

func isFieldAddrOf(v ssa.Value, field string) bool {
	fa, ok := v.(*ssa.FieldAddr)
	if !ok {
		return false
	}
	_, f := fieldOfAddr(fa)
	return f == field
}

// isTableOf: v is the decoder's table itself (&d.c), or a private copy built in a local variable whose address is then
// stored into the decoder's field (copy on write: c := *d.c; c[…] = …; d.c = &c).
func isTableOf(v ssa.Value, field string) bool {
	if isFieldAddrOf(v, field) {
		return true
	}
	if par, ok := v.(*ssa.Parameter); ok {
		// a helper (a method of the table type) that patches the table it is given: every call passes &d.c
		h := par.Parent()
		k := -1
		for i, q := range h.Params {
			if q == par {
				k = i
			}
		}
		sites := 0
		for f := range ssautilAllFunctionsOf(h) {
			for _, b := range f.Blocks {
				for _, ins := range b.Instrs {
					c, ok := ins.(*ssa.Call)
					if !ok || c.Call.StaticCallee() != h || k < 0 || k >= len(c.Call.Args) {
						continue
					}
					sites++
					if !isFieldAddrOf(c.Call.Args[k], field) {
						return false
					}
				}
			}
		}
		return sites > 0
	}
	al, ok := v.(*ssa.Alloc)
	if !ok {
		return false
	}
	for _, r := range *al.Referrers() {
		if st, ok := r.(*ssa.Store); ok && st.Val == ssa.Value(al) && isFieldAddrOf(st.Addr, field) {
			return true
		}
	}
	return false
}

func constOr(v ssa.Value, def int64) (int64, bool) {
	if v == nil {
		return def, true
	}
	return constInt(v)
}

func ruleTeletextNational(p *Prog, l *Ledger, tier string) {
	const rule = "E9.T6-teletext-national-options"
	const name = "teletextCharacterDecoder.updateCharset"
	fn := anchor(p, l, rule, name)
	if fn == nil {
		return
	}
	a := NewNilAnalysis(p)
	isSubset := func(v ssa.Value) bool {
		t := v.Type()
		if pt, ok := t.Underlying().(*types.Pointer); ok {
			t = pt.Elem()
		}
		return typeStr(t) == "teletextNationalSubset"
	}
	pairs := map[int64]int64{} // G0 position → subset index
	undecided := ""
	var blocks []*ssa.BasicBlock
	for _, h := range p.Helpers(fn) {
		if fnPkg(h) == p.LibSSA {
			blocks = append(blocks, h.Blocks...)
		}
	}
	for _, b := range blocks {
		for _, ins := range b.Instrs {
			switch t := ins.(type) {
			case *ssa.Store:
				// d.c[T[k]] = subset[k]
				dst, ok := t.Addr.(*ssa.IndexAddr)
				if !ok || !isTableOf(dst.X, "c") {
					continue
				}
				ld, ok := t.Val.(*ssa.UnOp)
				if !ok {
					continue
				}
				src, ok := ld.X.(*ssa.IndexAddr)
				if !ok || !isSubset(src.X) {
					continue
				}
				// index of the destination: constant, or a load from a constant array at the source index
				if c, ok := constInt(dst.Index); ok {
					if k, ok := constInt(src.Index); ok {
						pairs[c] = k
						continue
					}
					undecided = "store with a constant position but a variable sub-set index at " + p.Pos(t.Pos())
					continue
				}
				gl, tidx, ok := globalTableLookup(dst.Index)
				if !ok {
					undecided = "position of the store at " + p.Pos(t.Pos()) + " is not a constant-table lookup"
					continue
				}
				if stripConv(tidx) != stripConv(src.Index) {
					undecided = "position table and sub-set are not indexed by the same variable at " + p.Pos(t.Pos())
					continue
				}
				vals, ok := a.globalIntArrayValues(gl)
				if !ok {
					undecided = "position table " + gl.Name() + " is not a constant array"
					continue
				}
				// the loop runs over the whole sub-set (range over a [13] array): index k covers 0..min(len)-1
				for k, v := range vals {
					if k < 13 {
						pairs[v] = int64(k)
					}
				}
			case *ssa.Call:
				bi, ok := t.Call.Value.(*ssa.Builtin)
				if !ok || bi.Name() != "copy" {
					continue
				}
				ds, ok1 := t.Call.Args[0].(*ssa.Slice)
				ss, ok2 := t.Call.Args[1].(*ssa.Slice)
				if !ok1 || !ok2 || !isFieldAddrOf(ds.X, "c") || !isSubset(ss.X) {
					continue
				}
				dlo, o1 := constOr(ds.Low, 0)
				dhi, o2 := constOr(ds.High, 96)
				slo, o3 := constOr(ss.Low, 0)
				shi, o4 := constOr(ss.High, 13)
				if !o1 || !o2 || !o3 || !o4 {
					undecided = "copy with non-constant bounds at " + p.Pos(t.Pos())
					continue
				}
				for i := int64(0); slo+i < shi && dlo+i < dhi; i++ {
					pairs[dlo+i] = slo + i
				}
			}
		}
	}
	key := rule + "|installed"
	if len(pairs) == 0 && undecided == "" {
		// nothing is installed into a copy of the G0 table at all: the decoder holds its tables in another way (an
		// overlay consulted when decoding, a precomputed table per code); the rule does not evaluate that shape
		undecided = "updateCharset does not patch a copy of the G0 table (no store of a national option character into the decoder's table was found)"
	}
	if undecided != "" {
		l.Undecide(rule, name, key, "", "the installation of the national option characters is not in a shape the rule evaluates: "+undecided)
		return
	}
	var bad []string
	for k, pos := range etsNationalPositions {
		if got, ok := pairs[pos]; !ok {
			bad = append(bad, fmt.Sprintf("national option character %d is never installed at G0 position %#x (%d/%X)", k, pos, (pos+0x20)>>4, (pos+0x20)&15))
		} else if got != int64(k) {
			bad = append(bad, fmt.Sprintf("G0 position %#x receives national option character %d instead of %d", pos, got, k))
		}
		delete(pairs, pos)
	}
	var extra []int64
	for pos := range pairs {
		extra = append(extra, pos)
	}
	sort.Slice(extra, func(i, j int) bool { return extra[i] < extra[j] })
	for _, pos := range extra {
		bad = append(bad, fmt.Sprintf("G0 position %#x is overwritten by national option character %d although the standard leaves it alone", pos, pairs[pos]))
	}
	if len(bad) == 0 {
		l.Prove(rule, name, key, blockPos(p, fn.Blocks[0]), "the 13 national option characters are installed at the 13 positions of ETS 300 706 table 36, in order")
	} else {
		l.Fail(rule, name, key, blockPos(p, fn.Blocks[0]), name+": "+bad[0]+fmt.Sprintf(" (%d deviation(s) from ETS 300 706 table 36): text in a non-default national option is decoded with the wrong character", len(bad)))
	}
	l.Min(rule, 1, 1)
	// the table the national characters are installed into is a fresh copy of the designated G0 table on
	// every call that gets past the "same charset code as before" early return: a copy that is skipped
	// when the table pointer has not changed keeps the previous page's national characters at the 13
	// positions whenever the new designation has no national sub-set
	keyC := rule + "|fresh-g0-copy"
	var commit *ssa.Store
	var copies []ssa.Instruction
	for _, h := range p.Helpers(fn) {
		if fnPkg(h) != p.LibSSA {
			continue
		}
		for _, b := range h.Blocks {
			for _, ins := range b.Instrs {
				st, ok := ins.(*ssa.Store)
				if !ok {
					continue
				}
				if isFieldAddrOf(st.Addr, "lastPageCharsetCode") && h == fn {
					commit = st
				}
				if isFieldAddrOf(st.Addr, "c") {
					if site := p.siteIn(fn, st); site != nil {
						copies = append(copies, site)
					}
				}
			}
		}
	}
	switch {
	case commit == nil || len(copies) == 0:
		l.Undecide(rule, name, keyC, "", "the store of the page's charset code or the copy of the G0 table into the decoder was not found in updateCharset")
	default:
		bad := ""
		for _, b := range fn.Blocks {
			r, ok := b.Instrs[len(b.Instrs)-1].(*ssa.Return)
			if !ok || !(commit.Block() == b || commit.Block().Dominates(b)) {
				continue
			}
			dom := false
			for _, c := range copies {
				if c.Block() == b || c.Block().Dominates(b) {
					dom = true
				}
			}
			if !dom {
				bad = p.Pos(r.Pos())
			}
		}
		if bad == "" {
			l.Prove(rule, name, keyC, p.Pos(commit.Pos()), "every return after the charset code has been recorded is dominated by a copy of the designated G0 table into the decoder")
		} else {
			l.Fail(rule, name, keyC, bad, name+": the return at "+bad+" is reached with a new charset code recorded but without the designated G0 table having been copied into the decoder: the 13 national option positions keep what the previous page installed when the new designation has no national sub-set")
		}
	}
}

// globalTableLookup: v (conversions stripped) is element idx of a package-level array or slice:
// *(&G[idx]), or (*G)[idx] on the array value a range clause copied.
func globalTableLookup(v ssa.Value) (*ssa.Global, ssa.Value, bool) {
	switch x := stripConv(v).(type) {
	case *ssa.UnOp:
		if ia, ok := x.X.(*ssa.IndexAddr); ok {
			if gl, ok := ia.X.(*ssa.Global); ok {
				return gl, ia.Index, true
			}
		}
	case *ssa.Index:
		if u, ok := x.X.(*ssa.UnOp); ok && u.Op == token.MUL {
			if gl, ok := u.X.(*ssa.Global); ok {
				return gl, x.Index, true
			}
		}
	}
	return nil, nil, false
}

// ssautilAllFunctionsOf: the functions of the package h belongs to (members, methods and their closures).
func ssautilAllFunctionsOf(h *ssa.Function) map[*ssa.Function]bool {
	out := map[*ssa.Function]bool{}
	if h.Pkg == nil {
		return out
	}
	var add func(f *ssa.Function)
	add = func(f *ssa.Function) {
		if f == nil || out[f] {
			return
		}
		out[f] = true
		for _, af := range f.AnonFuncs {
			add(af)
		}
	}
	for _, m := range h.Pkg.Members {
		switch x := m.(type) {
		case *ssa.Function:
			add(x)
		case *ssa.Type:
			for _, t := range []types.Type{x.Type(), types.NewPointer(x.Type())} {
				ms := h.Prog.MethodSets.MethodSet(t)
				for i := 0; i < ms.Len(); i++ {
					add(h.Prog.MethodValue(ms.At(i)))
				}
			}
		}
	}
	return out
}
