package chk

import (
	"fmt"
	"sort"
	"strconv"

	"golang.org/x/tools/go/ssa"
)

// ---- E10-A9 language value sources (added after seeded change C03/1) --------------------------------
// The language of a document survives a write/read cycle only if the code the writer emits is the
// inverse image, in the format's language table, of what the reader maps forwards through the same
// table. Rule: every value stored into the language field of the output document (writer) or into
// Metadata.Language (reader) originates from a lookup in that table, in the right direction, and
// from nothing else (no second table, no post-processing of the looked-up code). The empty string
// constant is accepted (no language).
type langSite struct {
	fn, stype, field, table string
	inverse                 bool
}

var langSites = map[string][]langSite{
	"TTML": {
		{"Subtitles.WriteToTTML", "TTMLOut", "Lang", "ttmlLanguageMapping", true},
		{"TTMLIn.metadata", "Metadata", "Language", "ttmlLanguageMapping", false},
	},
	"STL": {
		{"newGSIBlock", "gsiBlock", "languageCode", "stlLanguageMapping", true},
		{"ReadFromSTL", "Metadata", "Language", "stlLanguageMapping", false},
	},
}

func valueOrigins(v ssa.Value, seen map[ssa.Value]bool, out map[string]ssa.Value, table string, inverse bool) {
	if seen[v] {
		return
	}
	seen[v] = true
	switch t := v.(type) {
	case *ssa.Phi:
		for _, e := range t.Edges {
			valueOrigins(e, seen, out, table, inverse)
		}
		return
	case *ssa.TypeAssert:
		valueOrigins(t.X, seen, out, table, inverse)
		return
	case *ssa.ChangeType:
		valueOrigins(t.X, seen, out, table, inverse)
		return
	case *ssa.MakeInterface:
		valueOrigins(t.X, seen, out, table, inverse)
		return
	case *ssa.Const:
		if s, ok := constStr(t); ok && s == "" {
			return
		}
		if s, ok := constStr(t); ok {
			out["constant "+strconv.Quote(s)] = v
		} else {
			out["constant "+t.String()] = v
		}
		return
	case *ssa.Extract:
		if c, inv, ok := biMapLookup(t); ok {
			if u, ok := c.Call.Args[0].(*ssa.UnOp); ok {
				if g, ok := u.X.(*ssa.Global); ok && g.Name() == table && inv == inverse {
					out["table"] = v
					return
				}
			}
			out["lookup in another table or direction: "+c.String()] = v
			return
		}
		if ta, ok := t.Tuple.(*ssa.TypeAssert); ok { // v, ok := x.(string)
			valueOrigins(ta.X, seen, out, table, inverse)
			return
		}
	}
	out[v.Name()+" = "+v.String()] = v
}

func ruleLanguageSources(format string) func(p *Prog, l *Ledger, tier string) {
	return func(p *Prog, l *Ledger, tier string) {
		const rule = "E10.A9-language-sources"
		n := 0
		for _, s := range langSites[format] {
			fn := anchor(p, l, rule, s.fn)
			if fn == nil {
				continue
			}
			// the function and the helpers it calls with static calls inside the package (one level)
			blocks := append([]*ssa.BasicBlock{}, fn.Blocks...)
			vals := fieldStores(blocks, s.stype)[s.field]
			key := l.Key(rule, s.fn, "stores", s.stype+"."+s.field)
			if len(vals) == 0 {
				l.Undecide(rule, s.fn, key, "", fmt.Sprintf("no store to %s.%s found in %s: the wiring of the language moved", s.stype, s.field, s.fn))
				continue
			}
			n++
			origins := map[string]ssa.Value{}
			for _, v := range vals {
				valueOrigins(v, map[ssa.Value]bool{}, origins, s.table, s.inverse)
			}
			// a constant that is itself an entry of the table (on the side being produced) is a default, not a second mapping
			side := strset{}
			for _, pr := range p.BiMaps().byGlobal[s.table] {
				e := pr.v
				if s.inverse {
					e = pr.k
				}
				if c, ok := constStr(e); ok {
					side.add("constant " + strconv.Quote(c))
				}
			}
			var bad []string
			for o := range origins {
				if o != "table" && !side[o] {
					bad = append(bad, o)
				}
			}
			sort.Strings(bad)
			dir := map[bool]string{true: "GetInverse", false: "Get"}[s.inverse]
			if _, ok := origins["table"]; ok && len(bad) == 0 {
				l.Prove(rule, s.fn, key, p.Pos(origins["table"].Pos()), fmt.Sprintf("%s.%s only receives %s.%s results", s.stype, s.field, s.table, dir))
			} else if len(bad) == 0 {
				l.Fail(rule, s.fn, key, "", fmt.Sprintf("%s never stores a %s.%s result into %s.%s", s.fn, s.table, dir, s.stype, s.field))
			} else {
				pos := p.Pos(origins[bad[0]].Pos())
				if ex, ok := origins[bad[0]].(*ssa.Extract); ok && pos == "-" {
					pos = p.Pos(ex.Tuple.Pos())
				}
				l.Fail(rule, s.fn, key, pos, fmt.Sprintf("%s stores into %s.%s a value that is not the %s.%s result (%s): the sibling %s maps languages through %s only, so that value does not survive a write/read cycle", s.fn, s.stype, s.field, s.table, dir, bad[0], map[bool]string{true: "reader", false: "writer"}[s.inverse], s.table))
			}
		}
		l.Min(rule, n, len(langSites[format]))
	}
}
