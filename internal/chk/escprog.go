package chk

import (
	"fmt"
	"go/token"
	"go/types"
	"strings"
	"unicode/utf8"

	"golang.org/x/tools/go/ssa"
)

// ---- E9-T1 (extraction): the replacement program of escapeHTML / unescapeHTML ---------------------------
//
// The escaping functions are read as a replacement program: a sequence of stages, each a simultaneous
// replacement of constant patterns (a strings.Replacer is one stage with all its pairs, a strings.ReplaceAll
// with constant operands is a stage with one pair, a loop over a package-level table of constant pairs is one
// stage per row in iteration order). An early return of the unchanged parameter under a Contains/ContainsAny
// test is dropped when the test implies that no pattern of the program occurs (then the program is the
// identity on that input anyway). Anything else is not read: the caller reports UNDECIDED.

type escStage struct {
	pairs [][2]string
	pos   token.Pos
}

type escProgram struct {
	stages []escStage
	why    string // non-empty: not extracted
}

func (e escProgram) sequential() bool { return len(e.stages) > 1 }

func (e escProgram) flat() [][2]string {
	var out [][2]string
	for _, s := range e.stages {
		out = append(out, s.pairs...)
	}
	return out
}

func (p *Prog) escapeProgramOf(name string) escProgram {
	fn := p.Fn(name)
	if fn == nil || len(fn.Params) != 1 || len(fn.Blocks) == 0 {
		return escProgram{why: name + " not found with one parameter"}
	}
	param := fn.Params[0]
	var prog *escProgram
	var guards []*ssa.Return
	for _, b := range fn.Blocks {
		ret, ok := b.Instrs[len(b.Instrs)-1].(*ssa.Return)
		if !ok {
			continue
		}
		if len(ret.Results) != 1 {
			return escProgram{why: "result count"}
		}
		if ret.Results[0] == ssa.Value(param) && len(fn.Blocks) > 1 {
			guards = append(guards, ret)
			continue
		}
		st, why := p.escChain(param, ret.Results[0], 0)
		if why != "" {
			return escProgram{why: why}
		}
		if prog != nil {
			return escProgram{why: "more than one computed result"}
		}
		prog = &escProgram{stages: st}
	}
	if prog == nil {
		return escProgram{why: "no computed result"}
	}
	for _, g := range guards {
		if why := escGuardImplied(g, param, prog.flat()); why != "" {
			return escProgram{why: why}
		}
	}
	return *prog
}

// escChain reads v (a string computed from param) as stages applied to param.
func (p *Prog) escChain(param *ssa.Parameter, v ssa.Value, depth int) ([]escStage, string) {
	if depth > 32 {
		return nil, "replacement chain too deep"
	}
	if v == ssa.Value(param) {
		return nil, ""
	}
	switch x := v.(type) {
	case *ssa.Call:
		sc := x.Call.StaticCallee()
		if sc == nil {
			return nil, "dynamic call in the replacement chain"
		}
		switch sc.String() {
		case "(*strings.Replacer).Replace":
			pairs, ok := p.replacerValuePairs(x.Call.Args[0])
			if !ok {
				return nil, "Replacer is not a package-level strings.NewReplacer with constant arguments"
			}
			pre, why := p.escChain(param, x.Call.Args[1], depth+1)
			if why != "" {
				return nil, why
			}
			return append(pre, escStage{pairs, x.Pos()}), ""
		case "strings.ReplaceAll", "strings.Replace":
			if sc.String() == "strings.Replace" {
				if n, ok := constInt(x.Call.Args[3]); !ok || n >= 0 {
					return nil, "strings.Replace with a bounded count"
				}
			}
			a, ok1 := constStr(x.Call.Args[1])
			b, ok2 := constStr(x.Call.Args[2])
			if !ok1 || !ok2 {
				return nil, "ReplaceAll with non-constant operands outside a table loop"
			}
			pre, why := p.escChain(param, x.Call.Args[0], depth+1)
			if why != "" {
				return nil, why
			}
			return append(pre, escStage{[][2]string{{a, b}}, x.Pos()}), ""
		}
		return nil, "call to " + sc.String() + " in the replacement chain"
	case *ssa.Phi:
		return p.escLoop(param, x, depth)
	}
	return nil, fmt.Sprintf("%T in the replacement chain", v)
}

func (p *Prog) replacerValuePairs(recv ssa.Value) ([][2]string, bool) {
	u, ok := recv.(*ssa.UnOp)
	if !ok || u.Op != token.MUL {
		return nil, false
	}
	g, ok := u.X.(*ssa.Global)
	if !ok {
		return nil, false
	}
	return replacerPairs(p, g.Name())
}

// escLoop: phi = [init, ReplaceAll(phi, row.f, row.g)] at the header of a loop over a package-level table.
func (p *Prog) escLoop(param *ssa.Parameter, phi *ssa.Phi, depth int) ([]escStage, string) {
	if len(phi.Edges) != 2 {
		return nil, "phi with more than two edges in the replacement chain"
	}
	var init ssa.Value
	var call *ssa.Call
	for _, e := range phi.Edges {
		if c, ok := e.(*ssa.Call); ok && len(c.Call.Args) >= 3 && c.Call.Args[0] == ssa.Value(phi) {
			call = c
		} else {
			init = e
		}
	}
	if call == nil || init == nil {
		return nil, "loop-carried string is not s = strings.ReplaceAll(s, …)"
	}
	sc := call.Call.StaticCallee()
	if sc == nil || (sc.String() != "strings.ReplaceAll" && sc.String() != "strings.Replace") {
		return nil, "loop-carried string is not s = strings.ReplaceAll(s, …)"
	}
	if sc.String() == "strings.Replace" {
		if n, ok := constInt(call.Call.Args[3]); !ok || n >= 0 {
			return nil, "strings.Replace with a bounded count"
		}
	}
	ta, ia, fa, ok1 := tableCell(call.Call.Args[1])
	tb, ib, fb, ok2 := tableCell(call.Call.Args[2])
	if !ok1 || !ok2 || ta != tb || ia != ib {
		return nil, "operands of the loop's ReplaceAll are not two cells of one table row"
	}
	rows, ok := p.globalRows(ta)
	if !ok {
		return nil, "table " + ta.Name() + " is not a package-level literal of constant strings"
	}
	dir := inductionDirection(ia, phi.Block())
	if dir == 0 {
		return nil, "iteration order over " + ta.Name() + " not recognised"
	}
	pre, why := p.escChain(param, init, depth+1)
	if why != "" {
		return nil, why
	}
	out := pre
	for k := range rows {
		r := rows[k]
		if dir < 0 {
			r = rows[len(rows)-1-k]
		}
		if fa >= len(r) || fb >= len(r) {
			return nil, "table row shorter than the cell index"
		}
		out = append(out, escStage{[][2]string{{r[fa], r[fb]}}, call.Pos()})
	}
	return out, ""
}

// tableCell: v = T[i].f (struct rows) or T[i][k] (array rows), T a package-level slice or array.
func tableCell(v ssa.Value) (g *ssa.Global, idx ssa.Value, cell int, ok bool) {
	elem := func(x ssa.Value) (*ssa.Global, ssa.Value, bool) {
		ia, ok := x.(*ssa.IndexAddr)
		if !ok {
			return nil, nil, false
		}
		switch t := ia.X.(type) {
		case *ssa.Global:
			return t, ia.Index, true
		case *ssa.UnOp:
			if gg, ok := t.X.(*ssa.Global); ok && t.Op == token.MUL {
				return gg, ia.Index, true
			}
		}
		return nil, nil, false
	}
	switch x := v.(type) {
	case *ssa.Field: // (*&T[i]).f
		if u, ok := x.X.(*ssa.UnOp); ok && u.Op == token.MUL {
			if g, i, ok := elem(u.X); ok {
				return g, i, x.Field, true
			}
		}
	case *ssa.UnOp:
		if x.Op != token.MUL {
			break
		}
		switch a := x.X.(type) {
		case *ssa.FieldAddr:
			if g, i, ok := elem(a.X); ok {
				return g, i, a.Field, true
			}
			// the row copied into the loop variable's cell: e := T[i]; e.f
			if al, ok := a.X.(*ssa.Alloc); ok {
				var src ssa.Value
				n := 0
				for _, r := range *al.Referrers() {
					if st, ok := r.(*ssa.Store); ok && st.Addr == ssa.Value(al) {
						src = st.Val
						n++
					}
				}
				if u, ok := src.(*ssa.UnOp); ok && n == 1 && u.Op == token.MUL {
					if g, i, ok := elem(u.X); ok {
						return g, i, a.Field, true
					}
				}
			}
		case *ssa.IndexAddr: // &(&T[i])[k]
			if k, ok := constInt(a.Index); ok {
				if g, i, ok := elem(a.X); ok {
					return g, i, int(k), true
				}
				// the row (an array) copied into the loop variable's cell: e := T[i]; e[k]
				if al, ok := a.X.(*ssa.Alloc); ok {
					var src ssa.Value
					n := 0
					for _, r := range *al.Referrers() {
						switch y := r.(type) {
						case *ssa.Store:
							if y.Addr == ssa.Value(al) {
								src = y.Val
							}
							n++
						case *ssa.IndexAddr:
							for _, r2 := range *y.Referrers() {
								if st, ok := r2.(*ssa.Store); ok && st.Addr == ssa.Value(y) {
									n += 2 // a cell of the copy is reassigned
								}
							}
						}
					}
					if u, ok := src.(*ssa.UnOp); ok && n == 1 && u.Op == token.MUL {
						if g, i, ok := elem(u.X); ok {
							return g, i, int(k), true
						}
					}
				}
			}
		}
	case *ssa.Index: // (*&T[i])[k] on an array value
		if k, ok := constInt(x.Index); ok {
			if u, ok := x.X.(*ssa.UnOp); ok && u.Op == token.MUL {
				if g, i, ok := elem(u.X); ok {
					return g, i, int(k), true
				}
			}
		}
	}
	return nil, nil, 0, false
}

// inductionDirection: +1 when idx runs 0,1,2,… over the loop headed by hdr (range or counted loop), -1 when it
// runs len-1,…,0, 0 when not recognised.
func inductionDirection(idx ssa.Value, hdr *ssa.BasicBlock) int {
	step := func(v ssa.Value, phi *ssa.Phi) int64 {
		b, ok := v.(*ssa.BinOp)
		if !ok || b.X != ssa.Value(phi) {
			return 0
		}
		c, ok := constInt(b.Y)
		if !ok {
			return 0
		}
		switch b.Op {
		case token.ADD:
			return c
		case token.SUB:
			return -c
		}
		return 0
	}
	classify := func(phi *ssa.Phi, viaNext bool) int {
		if len(phi.Edges) != 2 || phi.Block() != hdr {
			return 0
		}
		for k, e := range phi.Edges {
			st := step(phi.Edges[1-k], phi)
			if st == 0 {
				continue
			}
			if c, ok := constInt(e); ok {
				if st == 1 && ((viaNext && c == -1) || (!viaNext && c == 0)) {
					return 1
				}
				continue
			}
			// len(T)-1 downwards
			if b, ok := e.(*ssa.BinOp); ok && b.Op == token.SUB && !viaNext && st == -1 {
				if one, ok := constInt(b.Y); ok && one == 1 {
					if c, ok := b.X.(*ssa.Call); ok {
						if bi, ok := c.Call.Value.(*ssa.Builtin); ok && bi.Name() == "len" {
							return -1
						}
					}
				}
			}
		}
		return 0
	}
	switch x := idx.(type) {
	case *ssa.Phi:
		return classify(x, false)
	case *ssa.BinOp: // range loops index with phi+1 where phi starts at -1
		if phi, ok := x.X.(*ssa.Phi); ok && x.Op == token.ADD {
			if c, ok := constInt(x.Y); ok && c == 1 {
				return classify(phi, true)
			}
		}
	}
	return 0
}

// globalRows: the rows of a package-level []struct{…string…} / [][k]string / [n]… literal, as constant strings.
func (p *Prog) globalRows(g *ssa.Global) ([][]string, bool) {
	vals, ok := p.globalRowValues(g)
	if !ok {
		return nil, false
	}
	rows := make([][]string, len(vals))
	for i, r := range vals {
		for _, v := range r {
			s, ok := constStr(v)
			if !ok {
				return nil, false
			}
			rows[i] = append(rows[i], s)
		}
	}
	return rows, true
}

// globalRowValues: the cells of a package-level []struct{…} / [][k]T / [n]… literal as the values the package
// initialiser stores (constants, function literals, …); a cell never stored is nil.
func (p *Prog) globalRowValues(g *ssa.Global) ([][]ssa.Value, bool) {
	init := p.LibSSA.Func("init")
	if init == nil {
		return nil, false
	}
	var al *ssa.Alloc
	var n int64
	var rowT types.Type
	et := g.Type().(*types.Pointer).Elem().Underlying()
	switch t := et.(type) {
	case *types.Slice:
		sl, ok := p.globalInit(g.Name()).(*ssa.Slice)
		if !ok {
			return nil, false
		}
		al, ok = sl.X.(*ssa.Alloc)
		if !ok {
			return nil, false
		}
		at, ok := al.Type().(*types.Pointer).Elem().Underlying().(*types.Array)
		if !ok {
			return nil, false
		}
		n, rowT = at.Len(), at.Elem()
	case *types.Array:
		n, rowT = t.Len(), t.Elem()
	default:
		return nil, false
	}
	width := 0
	switch rt := rowT.Underlying().(type) {
	case *types.Struct:
		width = rt.NumFields()
	case *types.Array:
		width = int(rt.Len())
	default:
		return nil, false
	}
	rows := make([][]ssa.Value, n)
	for i := range rows {
		rows[i] = make([]ssa.Value, width)
	}
	filled := 0
	for _, b := range init.Blocks {
		for _, ins := range b.Instrs {
			st, ok := ins.(*ssa.Store)
			if !ok {
				continue
			}
			var inner ssa.Value
			cell := -1
			switch a := st.Addr.(type) {
			case *ssa.FieldAddr:
				inner, cell = a.X, a.Field
			case *ssa.IndexAddr:
				if k, ok := constInt(a.Index); ok {
					inner, cell = a.X, int(k)
				}
			}
			ia, ok := inner.(*ssa.IndexAddr)
			if !ok {
				continue
			}
			if !(al != nil && ia.X == ssa.Value(al)) && !(al == nil && ia.X == ssa.Value(g)) {
				continue
			}
			row, ok := constInt(ia.Index)
			if !ok || row < 0 || row >= n || cell < 0 || cell >= width {
				return nil, false
			}
			rows[row][cell] = st.Val
			filled++
		}
	}
	if filled == 0 {
		return nil, false
	}
	return rows, true
}

// escGuardImplied: ret returns the parameter unchanged; accepted when its block is reached only through the
// false edge of strings.Contains(param, S) / the false edge of strings.ContainsAny(param, S) (or ContainsRune /
// IndexByte-free forms are not read) and the test failing implies that no pattern of the program occurs.
func escGuardImplied(ret *ssa.Return, param *ssa.Parameter, pairs [][2]string) string {
	b := ret.Block()
	if len(b.Preds) != 1 {
		return "early return of the unchanged text reached from several places"
	}
	pred := b.Preds[0]
	iff, ok := pred.Instrs[len(pred.Instrs)-1].(*ssa.If)
	if !ok {
		return "early return of the unchanged text not under a test"
	}
	onFalse := pred.Succs[1] == b
	cond := iff.Cond
	if u, ok := cond.(*ssa.UnOp); ok && u.Op == token.NOT {
		cond, onFalse = u.X, !onFalse
	}
	// strings.Index*(param, S) < 0 / == -1 is a failed Contains
	if bo, ok := cond.(*ssa.BinOp); ok {
		k, isC := constInt(bo.Y)
		switch {
		case isC && bo.Op == token.LSS && k == 0, isC && bo.Op == token.EQL && k == -1:
			cond, onFalse = bo.X, !onFalse
		case isC && bo.Op == token.GEQ && k == 0, isC && bo.Op == token.NEQ && k == -1, isC && bo.Op == token.GTR && k == -1:
			cond = bo.X
		}
	}
	c, ok := cond.(*ssa.Call)
	if !ok || !onFalse {
		return "early return of the unchanged text under a test that is not a failed Contains/ContainsAny/Index"
	}
	sc := c.Call.StaticCallee()
	if sc == nil || len(c.Call.Args) != 2 || c.Call.Args[0] != ssa.Value(param) {
		return "early return of the unchanged text under a test that is not a failed Contains/ContainsAny/Index"
	}
	var s string
	kind := sc.String()
	switch kind {
	case "strings.Contains", "strings.ContainsAny", "strings.Index", "strings.IndexAny":
		s, ok = constStr(c.Call.Args[1])
	case "strings.IndexByte", "strings.IndexRune", "strings.ContainsRune":
		var r int64
		r, ok = constInt(c.Call.Args[1])
		s = string(rune(r))
	default:
		return "early return of the unchanged text under " + kind
	}
	if !ok {
		return "early-return test against a non-constant"
	}
	for _, pr := range pairs {
		switch kind {
		case "strings.Contains", "strings.Index", "strings.IndexByte", "strings.IndexRune", "strings.ContainsRune":
			if !strings.Contains(pr[0], s) {
				return fmt.Sprintf("the early return skips texts without %q, but the pattern %q can occur in them", s, pr[0])
			}
		case "strings.ContainsAny", "strings.IndexAny":
			if !strings.ContainsAny(pr[0], s) {
				return fmt.Sprintf("the early return skips texts without any of %q, but the pattern %q can occur in them", s, pr[0])
			}
		}
	}
	return ""
}

// ---- decision for sequential programs -------------------------------------------------------------------

// escSequentialVerdict applies the conditions under which a staged escape / unescape pair behaves like the
// simultaneous tables (whose agreement the table clauses of T1 decide). fail: a counter-example exists;
// undecided: the criterion does not apply.
type escFail struct {
	msg string
	pos token.Pos
}

func escSequentialVerdict(esc, un escProgram) (fail []escFail, undecided string, proved []string) {
	// an escape program that starts by DEcoding (escape(unescape(x)), "make escaping idempotent") is not injective:
	// the text that spells an entity and the character the entity stands for are written alike
	for _, pr := range esc.flat() {
		if utf8.RuneCountInString(pr[0]) > 1 && pr[1] != "" {
			a, b := escRun(esc, pr[0]), escRun(esc, pr[1])
			if a == b && pr[0] != pr[1] {
				fail = append(fail, escFail{pos: esc.stages[0].pos, msg: fmt.Sprintf("the escaping function writes the text %q and the text %q alike (both as %q): it decodes before it encodes, so text that spells an entity is read back as the character the entity stands for", pr[0], pr[1], a)})
			}
		}
	}
	if len(fail) > 0 {
		return fail, "", nil
	}
	srcs := map[string]bool{}
	for _, pr := range esc.flat() {
		if utf8.RuneCountInString(pr[0]) != 1 {
			return nil, fmt.Sprintf("staged replacement with a source pattern %q that is not a single character", pr[0]), nil
		}
		if srcs[pr[0]] {
			return nil, fmt.Sprintf("source %q escaped by two stages", pr[0]), nil
		}
		srcs[pr[0]] = true
	}
	// (S1) a later escape stage must not rewrite what an earlier stage produced
	for i, si := range esc.stages {
		for j := i + 1; j < len(esc.stages); j++ {
			for _, a := range esc.stages[j].pairs {
				for _, b := range si.pairs {
					if strings.Contains(b[1], a[0]) {
						fail = append(fail, escFail{pos: esc.stages[j].pos, msg: fmt.Sprintf("escape stage %d replaces %q inside %q, which stage %d produced for %q: %q is written as %q", j+1, a[0], b[1], i+1, b[0], b[0], strings.ReplaceAll(b[1], a[0], a[1]))})
					}
				}
			}
		}
	}
	// (S2) every entity starts with an escaped character and contains no other one: an entity pattern can then
	// only match at the start of a genuine entity in escaped text
	for _, pr := range esc.flat() {
		first, size := utf8.DecodeRuneInString(pr[1])
		if size == 0 || !srcs[string(first)] {
			return fail, fmt.Sprintf("entity %q does not start with an escaped character", pr[1]), nil
		}
		for _, r := range pr[1][size:] {
			if srcs[string(r)] {
				return fail, fmt.Sprintf("entity %q contains the escaped character %q after its first position", pr[1], string(r)), nil
			}
		}
	}
	// (S4) a character restored by an unescape stage must not complete a pattern of a later stage
	for k, sk := range un.stages {
		for j := k + 1; j < len(un.stages); j++ {
			for _, c := range sk.pairs {
				for _, e := range un.stages[j].pairs {
					if c[1] != "" && strings.Contains(e[0], c[1]) {
						fail = append(fail, escFail{pos: un.stages[k].pos, msg: fmt.Sprintf("unescape stage %d restores %q, which then completes the pattern %q of stage %d: the literal text %q is written as %q and read back as %q", k+1, c[1], e[0], j+1, e[0], escapeWith(esc.flat(), e[0]), e[1])})
					}
				}
			}
		}
	}
	if len(fail) == 0 {
		proved = append(proved, fmt.Sprintf("%d escape stage(s), %d unescape stage(s): no later escape stage rewrites an earlier product, every entity starts with an escaped character and has no other, no restored character completes a later pattern", len(esc.stages), len(un.stages)))
	}
	return fail, "", proved
}

func escapeWith(pairs [][2]string, s string) string {
	var args []string
	for _, pr := range pairs {
		args = append(args, pr[0], pr[1])
	}
	return strings.NewReplacer(args...).Replace(s)
}

// escRun applies the extracted replacement program to a constant (each stage a simultaneous replacement, in order).
func escRun(e escProgram, s string) string {
	for _, st := range e.stages {
		s = escapeWith(st.pairs, s)
	}
	return s
}

// localTableCell: v reads field #cell of a row of a local table (a slice or array literal of structs built in the
// function, ranged over directly or through the loop variable's copy). Returns the rows of the literal: for each row the
// value stored into each field (nil where the literal leaves the zero value).
func localTableCell(v ssa.Value) (rows [][]ssa.Value, cell int, ok bool) {
	u, isU := v.(*ssa.UnOp)
	if !isU || u.Op != token.MUL {
		return nil, 0, false
	}
	fa, isFA := u.X.(*ssa.FieldAddr)
	if !isFA {
		return nil, 0, false
	}
	rowTable := func(x ssa.Value) *ssa.Alloc {
		ia, ok := x.(*ssa.IndexAddr)
		if !ok {
			return nil
		}
		base := ia.X
		if sl, ok := base.(*ssa.Slice); ok && sl.Low == nil && sl.High == nil {
			base = sl.X
		}
		al, ok := base.(*ssa.Alloc)
		if !ok {
			return nil
		}
		if _, isArr := al.Type().Underlying().(*types.Pointer).Elem().Underlying().(*types.Array); !isArr {
			return nil
		}
		return al
	}
	table := rowTable(fa.X)
	if table == nil {
		if cellAl, isAl := fa.X.(*ssa.Alloc); isAl {
			for _, r := range *cellAl.Referrers() {
				if st, ok := r.(*ssa.Store); ok && st.Addr == ssa.Value(cellAl) {
					ld, ok := st.Val.(*ssa.UnOp)
					if !ok || ld.Op != token.MUL {
						return nil, 0, false
					}
					t := rowTable(ld.X)
					if t == nil || (table != nil && t != table) {
						return nil, 0, false
					}
					table = t
				}
			}
		}
	}
	if table == nil {
		return nil, 0, false
	}
	at := table.Type().Underlying().(*types.Pointer).Elem().Underlying().(*types.Array)
	st, isSt := at.Elem().Underlying().(*types.Struct)
	if !isSt {
		return nil, 0, false
	}
	rows = make([][]ssa.Value, at.Len())
	for i := range rows {
		rows[i] = make([]ssa.Value, st.NumFields())
	}
	put := func(k int64, f int, val ssa.Value) {
		if k >= 0 && k < at.Len() && f < st.NumFields() {
			rows[k][f] = val
		}
	}
	for _, r := range *table.Referrers() {
		ia, ok := r.(*ssa.IndexAddr)
		if !ok {
			continue
		}
		k, isC := constInt(ia.Index)
		if !isC {
			continue // a read through the loop index
		}
		for _, r1 := range *ia.Referrers() {
			switch y := r1.(type) {
			case *ssa.FieldAddr:
				for _, r2 := range *y.Referrers() {
					if s2, ok := r2.(*ssa.Store); ok && s2.Addr == ssa.Value(y) {
						put(k, y.Field, s2.Val)
					}
				}
			case *ssa.Store:
				// a whole row copied from a literal built in a local
				if y.Addr != ssa.Value(ia) {
					continue
				}
				if ld, ok := y.Val.(*ssa.UnOp); ok && ld.Op == token.MUL {
					if lit, ok := ld.X.(*ssa.Alloc); ok {
						for _, r3 := range *lit.Referrers() {
							if lfa, ok := r3.(*ssa.FieldAddr); ok {
								for _, r4 := range *lfa.Referrers() {
									if s4, ok := r4.(*ssa.Store); ok && s4.Addr == ssa.Value(lfa) {
										put(k, lfa.Field, s4.Val)
									}
								}
							}
						}
					}
				}
			}
		}
	}
	return rows, fa.Field, true
}
