package chk

import (
	"fmt"
	"strings"

	"golang.org/x/tools/go/ssa"
)

// ---- E10-A12 SSA text separators (run / line) -------------------------------------------------------------
// The SSA reader cuts the event text into lines at the strings it passes to strings.Split (after
// mapping \N to \n) and into runs at override blocks, keeping the text between two blocks exactly as it
// stands. The writer therefore has to join lines with one of the reader's line separators and runs with
// nothing at all: any run separator becomes part of the preceding run when the file is read, and is
// added once more on the next write ("reading what was written then writing again yields the same
// bytes").
func ruleSSATextSeparators(p *Prog, l *Ledger, tier string) {
	const rule = "E10.A12-ssa-text-separators"
	wr := anchor(p, l, rule, "newSSAEventFromItem")
	rd := anchor(p, l, rule, "ssaEvent.item")
	if wr == nil || rd == nil {
		return
	}
	// reader: line separators
	lineSeps := strset{}
	for _, b := range rd.Blocks {
		for _, ins := range b.Instrs {
			c, ok := ins.(*ssa.Call)
			if !ok {
				continue
			}
			switch calleeName(&c.Call) {
			case "strings.Split":
				if s, ok := constStr(c.Call.Args[1]); ok {
					lineSeps.add(s)
				}
			case "strings.ReplaceAll":
				if s, ok := constStr(c.Call.Args[1]); ok {
					lineSeps.add(s)
				}
			}
		}
	}
	// reader: are run texts trimmed?
	texts := fieldStores(rd.Blocks, "LineItem")["Text"]
	trimmed := len(texts) > 0
	for _, v := range texts {
		if c, ok := v.(*ssa.Call); !ok || !strings.HasPrefix(calleeName(&c.Call), "strings.Trim") {
			trimmed = false // at least one run text is stored as it stands
		}
	}
	loops := loopsOf(wr)
	n := 0
	for _, b := range wr.Blocks {
		for _, ins := range b.Instrs {
			c, ok := ins.(*ssa.Call)
			if !ok || calleeName(&c.Call) != "strings.Join" {
				continue
			}
			sep, ok := constStr(c.Call.Args[1])
			if !ok {
				l.Undecide(rule, "newSSAEventFromItem", l.Key(rule, "newSSAEventFromItem", "join", "non-constant"), p.Pos(c.Pos()), "strings.Join with a non-constant separator")
				continue
			}
			n++
			inLoop := false
			for _, li := range loops {
				if li.blocks[b] {
					inLoop = true
				}
			}
			if inLoop {
				key := l.Key(rule, "newSSAEventFromItem", "run-separator", "")
				if sep == "" || trimmed {
					l.Prove(rule, "newSSAEventFromItem", key, p.Pos(c.Pos()), fmt.Sprintf("runs are joined with %q", sep))
				} else {
					l.Fail(rule, "newSSAEventFromItem", key, p.Pos(c.Pos()), fmt.Sprintf("newSSAEventFromItem joins the runs of a line with %q, but ssaEvent.item keeps the text before an override block untrimmed: the separator becomes part of the preceding run and one more is added on every read/write cycle (the second write differs from the first)", sep))
				}
			} else {
				key := l.Key(rule, "newSSAEventFromItem", "line-separator", "")
				if lineSeps[sep] {
					l.Prove(rule, "newSSAEventFromItem", key, p.Pos(c.Pos()), fmt.Sprintf("lines are joined with %q, which the reader splits at", sep))
				} else {
					l.Fail(rule, "newSSAEventFromItem", key, p.Pos(c.Pos()), fmt.Sprintf("newSSAEventFromItem joins lines with %q, which is not among the strings the reader splits the text at (%v)", sep, lineSeps.sorted()))
				}
			}
		}
	}
	if n == 0 {
		// the text is accumulated in a strings.Builder / bytes.Buffer: constants written in the loop
		// over the lines (but not in the loop over the runs) separate lines, constants written in the
		// loop over the runs separate runs
		depth := func(b *ssa.BasicBlock) int {
			d := 0
			for _, li := range loops {
				if li.blocks[b] {
					d++
				}
			}
			return d
		}
		writes, runSep := 0, ""
		for _, b := range wr.Blocks {
			for _, ins := range b.Instrs {
				c, ok := ins.(*ssa.Call)
				if !ok {
					continue
				}
				switch calleeName(&c.Call) {
				case "(*strings.Builder).WriteString", "(*bytes.Buffer).WriteString":
				default:
					continue
				}
				writes++
				sep, isC := constStr(c.Call.Args[1])
				if !isC || sep == "" {
					continue
				}
				switch depth(b) {
				case 1:
					n++
					key := l.Key(rule, "newSSAEventFromItem", "line-separator", "")
					if lineSeps[sep] {
						l.Prove(rule, "newSSAEventFromItem", key, p.Pos(c.Pos()), fmt.Sprintf("lines are separated by %q, which the reader splits at", sep))
					} else {
						l.Fail(rule, "newSSAEventFromItem", key, p.Pos(c.Pos()), fmt.Sprintf("newSSAEventFromItem separates lines with %q, which is not among the strings the reader splits the text at (%v)", sep, lineSeps.sorted()))
					}
				case 2:
					runSep = sep
				}
			}
		}
		if writes > 0 {
			n++
			key := l.Key(rule, "newSSAEventFromItem", "run-separator", "")
			if runSep == "" || trimmed {
				l.Prove(rule, "newSSAEventFromItem", key, "", fmt.Sprintf("runs are written one after the other with %q between them", runSep))
			} else {
				l.Fail(rule, "newSSAEventFromItem", key, "", fmt.Sprintf("newSSAEventFromItem writes %q between the runs of a line, but ssaEvent.item keeps the text before an override block untrimmed: the separator becomes part of the preceding run and one more is added on every read/write cycle", runSep))
			}
		}
	}
	l.Min(rule, n, 2)
}
