package chk

import "strings"

// Root strings (see effects.go):
//   "B"     the object the base B points at directly (B = P<k>, FV<k>, G:<var>, U, CBP<k>)
//   "B.f"   an address inside field f of that object (struct objects only; transient, never in effects)
//   "B@"    B is a struct/array *value* parameter: the value itself (its pointers lead to "B.f+" / "B+")
//   "B+"    memory reachable from B through at least one load
//   "B.f+"  memory reachable through field f of the direct object, then at least one load

type rootInfo struct {
	base  string
	field string
	deep  bool
	value bool
}

func parseRoot(r string) rootInfo {
	ri := rootInfo{}
	if strings.HasSuffix(r, "+") {
		ri.deep = true
		r = r[:len(r)-1]
	}
	if strings.HasSuffix(r, "@") {
		ri.value = true
		r = r[:len(r)-1]
	}
	// base may contain dots (G:pkg/path.name); the field separator is '#'
	if i := strings.LastIndex(r, "#"); i >= 0 {
		ri.field = r[i+1:]
		r = r[:i]
	}
	ri.base = r
	return ri
}

func (ri rootInfo) String() string {
	s := ri.base
	if ri.field != "" {
		s += "#" + ri.field
	}
	if ri.value {
		s += "@"
	}
	if ri.deep {
		s += "+"
	}
	return s
}

// rootBase returns the base of a root: P0, FV1, G:pkg.name, U, CBP0.
func rootBase(r string) string { return parseRoot(r).base }

// deepen: the region reached by loading a pointer stored in region r.
func deepen(r string) string {
	ri := parseRoot(r)
	ri.deep = true
	ri.value = false
	return ri.String()
}

// withField: the address of field f inside the object designated by r.
func withField(r, f string) string {
	ri := parseRoot(r)
	if ri.deep || ri.field != "" {
		return r // already inside a field / deep: keep
	}
	if ri.value {
		// selecting a field of a value parameter: its pointers lead through that field
		return rootInfo{base: ri.base, field: f, deep: true}.String()
	}
	if paramLike(ri.base) {
		ri.field = f
		return ri.String()
	}
	return r
}

// effectRoot normalises the root recorded in an effect: direct field addresses collapse to
// the object ("B#f" → "B"); a value root "B@" written through means its interior: "B+".
func effectRoot(r string) string {
	ri := parseRoot(r)
	if ri.value {
		return rootInfo{base: ri.base, deep: true}.String()
	}
	if !ri.deep {
		ri.field = ""
	}
	return ri.String()
}

func deepenSet(s strset) strset {
	out := strset{}
	for r := range s {
		out.add(deepen(r))
	}
	return out
}

// paramLike: the base names an object handed in from outside the activation: a parameter, the cell
// of a captured variable, or the value of a captured variable.
func paramLike(base string) bool {
	return strings.HasPrefix(base, "P") || strings.HasPrefix(base, "FV") || strings.HasPrefix(base, "W")
}
