package chk

import (
	"fmt"
	"go/token"
	"go/types"
	"regexp"
	"sort"
	"strings"

	"golang.org/x/tools/go/ssa"
)

// E10-A4: SSA/ASS — sibling functions agree on column names, fields and literals.

// constArms: every "tag == const" comparison in fn (tags accepted by isTag): const → targets.
func constArms(fn *ssa.Function, isTag func(v ssa.Value) bool) map[string][]*ssa.BasicBlock {
	out := map[string][]*ssa.BasicBlock{}
	for _, b := range fn.Blocks {
		iff, ok := b.Instrs[len(b.Instrs)-1].(*ssa.If)
		if !ok {
			continue
		}
		bo, ok := iff.Cond.(*ssa.BinOp)
		if !ok || bo.Op != token.EQL {
			continue
		}
		for _, pr := range [][2]ssa.Value{{bo.X, bo.Y}, {bo.Y, bo.X}} {
			if s, ok := constStr(pr[1]); ok && isTag(pr[0]) {
				out[s] = append(out[s], b.Succs[0])
			}
		}
	}
	return out
}

// armTable: const → the single field of struct tname that the arm stores (mode "store") or reads
// (mode "read"); arms touching several fields (outer multi-case arms) are skipped in favour of
// the inner arm for the same constant.
func armTable(fn *ssa.Function, isTag func(v ssa.Value) bool, tname, mode string) map[string]string {
	out := map[string]string{}
	for c, targets := range constArms(fn, isTag) {
		for _, t := range targets {
			blocks := regionBlocks(t, nil)
			var fields []string
			if mode == "store" {
				for f := range fieldStores(blocks, tname) {
					fields = append(fields, f)
				}
			} else {
				for f := range fieldReads(blocks, tname) {
					fields = append(fields, f)
				}
			}
			if len(fields) == 1 {
				out[c] = fields[0]
			}
		}
	}
	return out
}

func isMapLookupOf(par *ssa.Parameter) func(v ssa.Value) bool {
	return func(v ssa.Value) bool {
		ex, ok := v.(*ssa.Extract)
		if !ok {
			return false
		}
		if lk, ok := ex.Tuple.(*ssa.Lookup); ok {
			return lk.X == ssa.Value(par)
		}
		// the lookup made by a helper that receives the table: attr, err := formatAttr(format, idx, …)
		if c, ok := ex.Tuple.(*ssa.Call); ok && ex.Index == 0 {
			sc := c.Call.StaticCallee()
			if sc == nil || len(sc.Blocks) == 0 {
				return false
			}
			for k, a := range c.Call.Args {
				if a != ssa.Value(par) || k >= len(sc.Params) {
					continue
				}
				for _, b := range sc.Blocks {
					for _, ins := range b.Instrs {
						if lk, ok := ins.(*ssa.Lookup); ok && lk.X == ssa.Value(sc.Params[k]) {
							return true
						}
					}
				}
			}
		}
		return false
	}
}

func isElemOf(par *ssa.Parameter) func(v ssa.Value) bool {
	return func(v ssa.Value) bool {
		u, ok := v.(*ssa.UnOp)
		if !ok {
			return false
		}
		ia, ok := u.X.(*ssa.IndexAddr)
		return ok && ia.X == ssa.Value(par)
	}
}

// wiring: stores into struct dst in fn → dstField ← single srcField of struct src.
func wiring(fn *ssa.Function, dst, src string) map[string]string {
	out := map[string]string{}
	for f, vals := range fieldStores(fn.Blocks, dst) {
		for _, v := range vals {
			s := strset{}
			traceField(v, src, map[ssa.Value]bool{}, s)
			if x, ok := oneOf(s); ok {
				out[f] = x
			}
		}
	}
	return out
}

func compareTables(l *Ledger, rule, what string, writer, reader map[string]string, wname, rname string, min int) {
	n := 0
	for _, k := range sortedKeysOf(writer) {
		n++
		key := rule + "|" + what + "|" + k
		r, ok := reader[k]
		switch {
		case !ok:
			l.Fail(rule, "", key, "", fmt.Sprintf("%s: %q is handled by %s (field %s) but not by %s", what, k, wname, writer[k], rname))
		case r != writer[k]:
			l.Fail(rule, "", key, "", fmt.Sprintf("%s: %q means field %s in %s but field %s in %s", what, k, writer[k], wname, r, rname))
		default:
			l.Prove(rule, "", key, "", fmt.Sprintf("%q ↔ %s in %s and %s", k, r, wname, rname))
		}
	}
	l.Min(rule+"."+what, n, min)
}

// inverseWiring checks a: X.f ← Y.g and b: Y.g' ← X.f' are mutually inverse.
func inverseWiring(l *Ledger, rule, what string, a, b map[string]string, an, bn string, min int) {
	n := 0
	for _, f := range sortedKeysOf(a) {
		g := a[f]
		back, ok := b[g]
		if !ok {
			continue
		}
		n++
		key := rule + "|" + what + "|" + f
		if back == f {
			l.Prove(rule, "", key, "", fmt.Sprintf("%s: %s ← %s and %s: %s ← %s", an, f, g, bn, g, f))
		} else {
			l.Fail(rule, "", key, "", fmt.Sprintf("%s copies %s into %s, but %s copies %s back from %s", an, g, f, bn, g, back))
		}
	}
	l.Min(rule+"."+what, n, min)
}

func ruleSSAColumns(p *Prog, l *Ledger, tier string) {
	const rule = "E10.A4-ssa-columns"
	get := func(n string) *ssa.Function { return anchor(p, l, rule, n) }
	sRead, sUpd, sStr := get("newSSAStyleFromString"), get("ssaStyle.updateFormat"), get("ssaStyle.string")
	sToModel, sFromModel := get("ssaStyle.style"), get("newSSAStyleFromStyle")
	eRead, eStr, wr := get("newSSAEventFromString"), get("ssaEvent.string"), get("Subtitles.WriteToSSA")
	iParse, iBytes, iMeta, iNew := get("ssaScriptInfo.parse"), get("ssaScriptInfo.bytes"), get("ssaScriptInfo.metadata"), get("newSSAScriptInfo")
	for _, f := range []*ssa.Function{sRead, sUpd, sStr, sToModel, sFromModel, eRead, eStr, wr, iParse, iBytes, iMeta, iNew} {
		if f == nil {
			return
		}
	}
	// --- styles
	R := armTable(sRead, isMapLookupOf(sRead.Params[1]), "ssaStyle", "store")
	S := armTable(sStr, isElemOf(sStr.Params[1]), "ssaStyle", "read")
	// updateFormat: ssaUpdateFormat(name, …) under a test of one field
	U := map[string]string{}
	for _, b := range sUpd.Blocks {
		for _, ins := range b.Instrs {
			c, ok := ins.(*ssa.Call)
			if !ok {
				continue
			}
			if sc := c.Call.StaticCallee(); sc == nil || FnName(sc) != "ssaUpdateFormat" {
				continue
			}
			name, ok := constStr(c.Call.Args[0])
			if !ok {
				continue
			}
			if d := b.Idom(); d != nil {
				if iff, ok := d.Instrs[len(d.Instrs)-1].(*ssa.If); ok && d.Succs[0] == b {
					s := strset{}
					traceField(iff.Cond, "ssaStyle", map[ssa.Value]bool{}, s)
					if f, ok := oneOf(s); ok {
						U[name] = f
					}
				}
			}
		}
	}
	if len(U) == 0 {
		U = updateFormatTable(sUpd)
	}
	compareTables(l, rule, "style-announced-vs-printed", U, S, "ssaStyle.updateFormat", "ssaStyle.string", 20)
	compareTables(l, rule, "style-printed-vs-read", S, R, "ssaStyle.string", "newSSAStyleFromString", 20)
	toModel := wiring(sToModel, "StyleAttributes", "ssaStyle")
	fromModel := wiring(sFromModel, "ssaStyle", "StyleAttributes")
	inverseWiring(l, rule, "style-model-wiring", toModel, fromModel, "ssaStyle.style", "newSSAStyleFromStyle", 20)
	// --- events
	ER := armTable(eRead, isMapLookupOf(eRead.Params[2]), "ssaEvent", "store")
	ES := armTable(eStr, isElemOf(eStr.Params[1]), "ssaEvent", "read")
	if len(ES) == 0 {
		ES = mapLiteralTable(eStr, isElemOf(eStr.Params[1]), "ssaEvent")
	}
	compareTables(l, rule, "event-printed-vs-read", ES, ER, "ssaEvent.string", "newSSAEventFromString", 10)
	// columns announced by WriteToSSA
	cols := strset{}
	for _, b := range p.helperBlocks(wr) {
		for _, ins := range b.Instrs {
			// the column list kept as a package-level []string literal (copied or read by the writer)
			if u, ok := ins.(*ssa.UnOp); ok && u.Op == token.MUL {
				if gl, ok := u.X.(*ssa.Global); ok && gl.Pkg == p.LibSSA {
					if vals, ok := sliceLiteral(p.globalInit(gl.Name())); ok {
						if ss, ok := stringsOf(vals); ok {
							for _, c := range ss {
								cols.add(c)
							}
						}
					}
				}
			}
			st, ok := ins.(*ssa.Store)
			if !ok {
				continue
			}
			if _, ok := st.Addr.(*ssa.IndexAddr); !ok {
				continue
			}
			if s, ok := constStr(st.Val); ok {
				cols.add(s)
			}
		}
	}
	nc := 0
	for _, c := range cols.sorted() {
		if c == "Name" && ES[c] == "" && S[c] == "" {
			continue
		}
		_, inE := ES[c]
		_, inS := S[c]
		if !inE && !inS && c != "Name" {
			// a constant stored into some other string slice
			if _, isR := ER[c]; !isR {
				continue
			}
		}
		if _, styleCol := R[c]; styleCol && !inE && c != "Name" {
			continue // style format column
		}
		if !inE {
			if c == "Name" {
				if _, ok := ER[c]; ok {
					// "Name" is both a style and an event column; the event side is checked below
				}
			}
		}
		if _, ok := ER[c]; ok {
			nc++
			key := rule + "|event-column|" + c
			if inE {
				l.Prove(rule, "", key, "", fmt.Sprintf("event column %q announced by WriteToSSA is printed by ssaEvent.string and parsed by newSSAEventFromString", c))
			} else {
				l.Fail(rule, "", key, "", fmt.Sprintf("event column %q is announced in the Format line of WriteToSSA but ssaEvent.string has no case for it: every row is one column short", c))
			}
		}
	}
	l.Min(rule+".event-columns", nc, 9)
	// --- script info
	IR := armTable(iParse, func(v ssa.Value) bool { return v == ssa.Value(iParse.Params[1]) }, "ssaScriptInfo", "store")
	IW := map[string]string{}
	for _, b := range iBytes.Blocks {
		for _, ins := range b.Instrs {
			bo, ok := ins.(*ssa.BinOp)
			if !ok || bo.Op != token.ADD {
				continue
			}
			c, ok := constStr(bo.X)
			if !ok || !strings.HasSuffix(c, ": ") {
				continue
			}
			s := strset{}
			traceField(bo.Y, "ssaScriptInfo", map[ssa.Value]bool{}, s)
			if f, ok := oneOf(s); ok {
				IW[strings.TrimSuffix(c, ": ")] = f
			}
		}
	}
	compareTables(l, rule, "scriptinfo-printed-vs-read", IW, IR, "ssaScriptInfo.bytes", "ssaScriptInfo.parse", 13)
	inverseWiring(l, rule, "scriptinfo-model-wiring", wiring(iMeta, "Metadata", "ssaScriptInfo"), wiring(iNew, "ssaScriptInfo", "Metadata"), "ssaScriptInfo.metadata", "newSSAScriptInfo", 14)
}

// constOnDerefTrue: string constants that flow into a value on the true edge of a test of *ptr
// where ptr has pointer type ptrOf (e.g. *bool) — "what the writer prints for true".
func constsOnDerefTrue(fn *ssa.Function) strset {
	out := strset{}
	for _, b := range fn.Blocks {
		iff, ok := b.Instrs[len(b.Instrs)-1].(*ssa.If)
		if !ok {
			continue
		}
		// cond is *p (bool) or  p != nil && *p  lowered: look for a load of a *bool
		u, ok := iff.Cond.(*ssa.UnOp)
		if !ok || u.Op != token.MUL {
			continue
		}
		if bt, ok := u.Type().Underlying().(*types.Basic); !ok || bt.Kind() != types.Bool {
			continue
		}
		t := b.Succs[0]
		// constants used on the true branch itself (appended, stored, passed on)
		if len(t.Preds) == 1 {
			for _, blk := range fn.Blocks {
				if blk != t && !t.Dominates(blk) {
					continue
				}
				for _, ins := range blk.Instrs {
					if _, isDbg := ins.(*ssa.DebugRef); isDbg {
						continue
					}
					if _, isPhi := ins.(*ssa.Phi); isPhi {
						continue
					}
					for _, op := range ins.Operands(nil) {
						if *op != nil {
							if s, ok := constStr(*op); ok {
								out.add(s)
							}
						}
					}
				}
			}
		}
		// phis fed from the true successor
		for _, blk := range fn.Blocks {
			for _, ins := range blk.Instrs {
				ph, ok := ins.(*ssa.Phi)
				if !ok {
					break
				}
				for i, e := range ph.Edges {
					pb := blk.Preds[i]
					if pb == t || t.Dominates(pb) {
						if s, ok := constStr(e); ok {
							out.add(s)
						}
					}
				}
			}
		}
	}
	return out
}

// constsComparedFeeding: string constants compared (==) with a value in fn where the comparison
// result feeds a call to astikit.BoolPtr (directly or as the branch that selects BoolPtr(true)).
func trueLiteralsRead(fn *ssa.Function) strset {
	out := strset{}
	var fromCond func(v ssa.Value, seen map[ssa.Value]bool)
	fromCond = func(v ssa.Value, seen map[ssa.Value]bool) {
		if seen[v] {
			return
		}
		seen[v] = true
		switch x := v.(type) {
		case *ssa.BinOp:
			if x.Op == token.EQL {
				if s, ok := constStr(x.Y); ok {
					out.add(s)
				} else if s, ok := constStr(x.X); ok {
					out.add(s)
				}
			}
			if x.Op == token.OR || x.Op == token.LOR {
				fromCond(x.X, seen)
				fromCond(x.Y, seen)
			}
		case *ssa.Phi:
			// a || b lowers to phi(true, b) with the branch on a
			for i, e := range x.Edges {
				fromCond(e, seen)
				if c, ok := e.(*ssa.Const); ok && c.Value != nil && c.Value.String() == "true" {
					pb := x.Block().Preds[i]
					if iff, ok := pb.Instrs[len(pb.Instrs)-1].(*ssa.If); ok {
						fromCond(iff.Cond, seen)
					}
				}
			}
		}
	}
	for _, b := range fn.Blocks {
		for _, ins := range b.Instrs {
			c, ok := ins.(*ssa.Call)
			if !ok {
				continue
			}
			sc := c.Call.StaticCallee()
			if sc == nil || sc.String() != "github.com/asticode/go-astikit.BoolPtr" {
				continue
			}
			arg := c.Call.Args[0]
			if k, ok := arg.(*ssa.Const); ok {
				if k.Value != nil && k.Value.String() == "true" {
					// BoolPtr(true) selected by a branch: the condition of the dominating if
					if d := b.Idom(); d != nil && d.Succs[0] == b {
						if iff, ok := d.Instrs[len(d.Instrs)-1].(*ssa.If); ok {
							fromCond(iff.Cond, map[ssa.Value]bool{})
						}
					}
				}
				continue
			}
			fromCond(arg, map[ssa.Value]bool{})
		}
	}
	return out
}

// a line of a written constant that is a section header
var reSection = regexp.MustCompile(`(?m)^\[([^\]\n]+)\]$`)

func ruleSSALiterals(p *Prog, l *Ledger, tier string) {
	const rule = "E10.A4-ssa-literals"
	get := func(n string) *ssa.Function { return anchor(p, l, rule, n) }
	sRead, sStr, eRead, eStr := get("newSSAStyleFromString"), get("ssaStyle.string"), get("newSSAEventFromString"), get("ssaEvent.string")
	wr, rd, info := get("Subtitles.WriteToSSA"), get("ReadFromSSAWithOptions"), get("ssaScriptInfo.bytes")
	toCol, fromCol, ssaStr := get("newSSAColorFromColor"), get("newColorFromSSAColor"), get("Color.SSAString")
	for _, f := range []*ssa.Function{sRead, sStr, eRead, eStr, wr, rd, info, toCol, fromCol, ssaStr} {
		if f == nil {
			return
		}
	}
	check := func(what string, written, accepted strset, wfn, rfn string) {
		key := rule + "|" + what
		if len(written) == 0 || len(accepted) == 0 {
			l.Undecide(rule, "", key, "", fmt.Sprintf("extraction-below-minimum: %s literals not found (written %v, accepted %v)", what, written.sorted(), accepted.sorted()))
			return
		}
		var bad []string
		for w := range written {
			if !accepted[w] {
				bad = append(bad, w)
			}
		}
		sort.Strings(bad)
		if len(bad) > 0 {
			l.Fail(rule, "", key, "", fmt.Sprintf("%s: %s writes %q for true but %s only takes %v as true: a true value is read back as false", what, wfn, bad, rfn, accepted.sorted()))
		} else {
			l.Prove(rule, "", key, "", fmt.Sprintf("%s: written %v ⊆ accepted %v", what, written.sorted(), accepted.sorted()))
		}
	}
	// booleans of style rows
	wTrue := strset{}
	for s := range constsOnDerefTrue(sStr) {
		if s != "0" {
			wTrue.add(s)
		}
	}
	rTrue := strset{}
	for s := range trueLiteralsRead(sRead) {
		rTrue.add(s)
	}
	check("style-boolean-true", wTrue, rTrue, "ssaStyle.string", "newSSAStyleFromString")
	// Marked
	wm := strset{}
	for s := range constsOnDerefTrue(eStr) {
		wm.add(s)
	}
	rm := strset{}
	for s := range trueLiteralsRead(eRead) {
		rm.add(s)
	}
	check("event-marked-true", wm, rm, "ssaEvent.string", "newSSAEventFromString")
	// section headers
	sections := strset{}
	isLower := func(v ssa.Value) bool {
		c, ok := v.(*ssa.Call)
		if !ok {
			return false
		}
		sc := c.Call.StaticCallee()
		return sc != nil && sc.String() == "strings.ToLower"
	}
	for _, h := range p.Helpers(rd) {
		if fnPkg(h) != p.LibSSA {
			continue
		}
		// the classification may sit in a helper the reader calls for every "[…]" line
		tag := isLower
		if h != rd {
			// in a helper only a switch on the lower-cased inside of the brackets (a slice of the line) counts
			tag = func(v ssa.Value) bool {
				if !isLower(v) {
					return false
				}
				_, isSlice := v.(*ssa.Call).Call.Args[0].(*ssa.Slice)
				return isSlice
			}
		}
		for c := range constArms(h, tag) {
			sections.add(c)
		}
	}
	// the same test written as strings.EqualFold(header, "Name")
	for _, b := range rd.Blocks {
		for _, ins := range b.Instrs {
			c, ok := ins.(*ssa.Call)
			if !ok || calleeName(&c.Call) != "strings.EqualFold" {
				continue
			}
			for _, a := range c.Call.Args {
				if s, ok := constStr(a); ok {
					sections.add(strings.ToLower(s))
				}
			}
		}
	}
	// the same test written as a lookup of strings.ToLower(title) in a package-level map literal
	for _, b := range rd.Blocks {
		for _, ins := range b.Instrs {
			lk, ok := ins.(*ssa.Lookup)
			if !ok || !isLower(lk.Index) {
				continue
			}
			if u, ok := lk.X.(*ssa.UnOp); ok {
				if gl, ok := u.X.(*ssa.Global); ok {
					for _, k := range p.globalMapKeys(gl.Name()) {
						sections.add(k)
					}
				}
			}
		}
	}
	if len(sections) == 0 {
		l.Undecide(rule, "ReadFromSSAWithOptions", rule+"|sections-read", "", "the section names the reader recognises could not be extracted (neither a switch on strings.ToLower(…) nor strings.EqualFold tests)")
		return
	}
	// reference: the spellings confirmed on the pinned tree (SSA v4 "[V4 Styles]", ASS "[V4+ Styles]", the
	// "[V4 Styles+]" variant found in the wild, "[Events]", "[Script Info]"); losing one makes the reader skip
	// that block of a well-formed document without any error
	for _, want := range []string{"events", "script info", "v4 styles", "v4+ styles", "v4 styles+"} {
		key := rule + "|section-read|" + want
		if sections[want] {
			l.Prove(rule, "ReadFromSSAWithOptions", key, "", "the reader recognises section ["+want+"] (case-insensitively)")
		} else {
			l.Fail(rule, "ReadFromSSAWithOptions", key, blockPos(p, rd.Blocks[0]), fmt.Sprintf("the reader no longer recognises the section header [%s] (it recognises %v): that block of a well-formed document is skipped silently and its styles / events are lost", want, sections.sorted()))
		}
	}
	n := 0
	wfns := p.Helpers(wr)
	hasInfo := false
	for _, f := range wfns {
		if f == info {
			hasInfo = true
		}
	}
	if !hasInfo {
		wfns = append(wfns, info)
	}
	for _, fn := range wfns {
		for _, b := range fn.Blocks {
			for _, ins := range b.Instrs {
				// any string constant the writer uses (converted to bytes directly or concatenated first)
				if _, isDbg := ins.(*ssa.DebugRef); isDbg {
					continue
				}
				for _, op := range ins.Operands(nil) {
					if *op == nil {
						continue
					}
					s, ok := constStr(*op)
					if !ok {
						continue
					}
					for _, m := range reSection.FindAllStringSubmatch(s, -1) {
						n++
						key := rule + "|section|" + m[1]
						if sections[strings.ToLower(m[1])] {
							l.Prove(rule, "", key, "", fmt.Sprintf("section header [%s] written by %s is a section the reader recognises", m[1], FnName(fn)))
						} else {
							l.Fail(rule, "", key, p.Pos(ins.Pos()), fmt.Sprintf("section header [%s] written by %s is not among the sections the reader recognises %v: the whole block is skipped on re-reading", m[1], FnName(fn), sections.sorted()))
						}
					}
				}
			}
		}
	}
	l.Min(rule+".sections", n, 4)
	// colour prefix and radix
	wPrefix := ""
	for _, b := range toCol.Blocks {
		for _, ins := range b.Instrs {
			if bo, ok := ins.(*ssa.BinOp); ok && bo.Op == token.ADD {
				if s, ok := constStr(bo.X); ok {
					wPrefix = s
				}
			}
		}
	}
	rPrefix, base16 := "", false
	for _, b := range fromCol.Blocks {
		for _, ins := range b.Instrs {
			switch x := ins.(type) {
			case *ssa.Call:
				if sc := x.Call.StaticCallee(); sc != nil && (sc.String() == "strings.HasPrefix" || sc.String() == "strings.CutPrefix" || sc.String() == "strings.TrimPrefix") {
					rPrefix, _ = constStr(x.Call.Args[1])
				}
				// the radix may be passed as a constant to the parser under the prefix test
				for _, a := range x.Call.Args {
					if c, ok := constInt(a); ok && c == 16 && isIntegerT(a.Type()) {
						if sc := x.Call.StaticCallee(); sc != nil && (fnPkg(sc) == p.LibSSA || strings.HasPrefix(sc.String(), "strconv.Parse")) {
							base16 = true
						}
					}
				}
			case *ssa.Phi:
				for _, e := range x.Edges {
					if c, ok := constInt(e); ok && c == 16 {
						base16 = true
					}
				}
			}
		}
	}
	hexVerb := false
	for _, b := range ssaStr.Blocks {
		for _, ins := range b.Instrs {
			if c, ok := ins.(*ssa.Call); ok {
				if sc := c.Call.StaticCallee(); sc != nil && sc.String() == "fmt.Sprintf" {
					if f, ok := constStr(c.Call.Args[0]); ok && strings.HasSuffix(strings.ToLower(f), "x") {
						hexVerb = true
					}
				}
			}
		}
	}
	key := rule + "|colour-form"
	if wPrefix != "" && wPrefix == rPrefix && base16 && hexVerb {
		l.Prove(rule, "", key, "", fmt.Sprintf("colours are written as %q + hexadecimal and the reader parses base 16 after the prefix %q", wPrefix, rPrefix))
	} else {
		l.Fail(rule, "", key, "", fmt.Sprintf("colour text form disagrees: writer prefix %q (hex verb %v), reader prefix %q (base 16 %v)", wPrefix, hexVerb, rPrefix, base16))
	}
}

// updateFormatTable: updateFormat written as a local table of (column name, present) rows walked by one loop that
// calls ssaUpdateFormat(row.name, …) under row.present: column name -> the ssaStyle field its presence test reads.
func updateFormatTable(fn *ssa.Function) map[string]string {
	out := map[string]string{}
	// the call: ssaUpdateFormat(<cell a of the row>, …) dominated by a test of <cell b of the row>
	nameCell, setCell := -1, -1
	var table *ssa.Alloc
	rowOf := func(v ssa.Value) (*ssa.Alloc, int, bool) {
		// v = *(&cell.f) with cell the loop variable's copy of *(&table[i]), or *(&table[i].f)
		u, ok := v.(*ssa.UnOp)
		if !ok || u.Op != token.MUL {
			return nil, 0, false
		}
		fa, ok := u.X.(*ssa.FieldAddr)
		if !ok {
			return nil, 0, false
		}
		base := fa.X
		if cell, ok := base.(*ssa.Alloc); ok {
			for _, r := range *cell.Referrers() {
				if st, ok := r.(*ssa.Store); ok && st.Addr == ssa.Value(cell) {
					if ld, ok := st.Val.(*ssa.UnOp); ok && ld.Op == token.MUL {
						base = ld.X
					}
					// range over the array value: c = (*table)[i]
					if ix, ok := st.Val.(*ssa.Index); ok {
						if ld, ok := ix.X.(*ssa.UnOp); ok && ld.Op == token.MUL {
							if al, ok := ld.X.(*ssa.Alloc); ok {
								return al, fa.Field, true
							}
						}
					}
				}
			}
		}
		ia, ok := base.(*ssa.IndexAddr)
		if !ok {
			return nil, 0, false
		}
		x := ia.X
		if sl, ok := x.(*ssa.Slice); ok {
			x = sl.X
		}
		al, ok := x.(*ssa.Alloc)
		if !ok {
			return nil, 0, false
		}
		return al, fa.Field, true
	}
	for _, b := range fn.Blocks {
		for _, ins := range b.Instrs {
			c, ok := ins.(*ssa.Call)
			if !ok {
				continue
			}
			if sc := c.Call.StaticCallee(); sc == nil || FnName(sc) != "ssaUpdateFormat" {
				continue
			}
			al, f, ok := rowOf(c.Call.Args[0])
			if !ok {
				continue
			}
			for _, dc := range dominatingConds(b) {
				if al2, f2, ok := rowOf(dc.cond); ok && al2 == al && dc.taken {
					table, nameCell, setCell = al, f, f2
				}
			}
		}
	}
	if table == nil {
		return out
	}
	names := map[int64]string{}
	fields := map[int64]string{}
	for _, r := range *table.Referrers() {
		ia, ok := r.(*ssa.IndexAddr)
		if !ok {
			continue
		}
		k, ok := constInt(ia.Index)
		if !ok {
			continue
		}
		var fas []*ssa.FieldAddr
		for _, r2 := range *ia.Referrers() {
			switch y := r2.(type) {
			case *ssa.FieldAddr:
				fas = append(fas, y)
			case *ssa.Store:
				// the row is built in a literal of its own and copied in: table[k] = *lit
				if ld, ok := y.Val.(*ssa.UnOp); ok && y.Addr == ssa.Value(ia) && ld.Op == token.MUL {
					if lit, ok := ld.X.(*ssa.Alloc); ok {
						for _, r3 := range *lit.Referrers() {
							if fa, ok := r3.(*ssa.FieldAddr); ok {
								fas = append(fas, fa)
							}
						}
					}
				}
			}
		}
		for _, fa := range fas {
			for _, r3 := range *fa.Referrers() {
				st, ok := r3.(*ssa.Store)
				if !ok || st.Addr != ssa.Value(fa) {
					continue
				}
				switch fa.Field {
				case nameCell:
					if s, ok := constStr(st.Val); ok {
						names[k] = s
					}
				case setCell:
					fs := strset{}
					traceField(st.Val, "ssaStyle", map[ssa.Value]bool{}, fs)
					if f, ok := oneOf(fs); ok {
						fields[k] = f
					}
				}
			}
		}
	}
	for k, n := range names {
		if f, ok := fields[k]; ok {
			out[n] = f
		}
	}
	return out
}

// mapLiteralTable: the row writer keeps "column name → rendered value" in a map literal built from the fields of the
// object and looks the columns of the format up in it: column → the one field its value is computed from (directly,
// through a helper or a closure, or – for a value chosen among constants – through the tests that choose it).
func mapLiteralTable(fn *ssa.Function, isTag func(v ssa.Value) bool, tname string) map[string]string {
	out := map[string]string{}
	for _, b := range fn.Blocks {
		for _, ins := range b.Instrs {
			lk, ok := ins.(*ssa.Lookup)
			if !ok || !isTag(lk.Index) {
				continue
			}
			mk, ok := lk.X.(*ssa.MakeMap)
			if !ok {
				continue
			}
			for _, r := range *mk.Referrers() {
				mu, ok := r.(*ssa.MapUpdate)
				if !ok {
					continue
				}
				k, ok := constStr(mu.Key)
				if !ok {
					continue
				}
				fs := strset{}
				traceFieldOrGetter(mu.Value, fs)
				traceField(mu.Value, tname, map[ssa.Value]bool{}, fs)
				if c, isCall := mu.Value.(*ssa.Call); isCall {
					for _, a := range c.Call.Args {
						traceField(a, tname, map[ssa.Value]bool{}, fs)
					}
				}
				if ph, isPhi := mu.Value.(*ssa.Phi); isPhi && len(fs) == 0 {
					for _, pb := range ph.Block().Preds {
						for _, dc := range dominatingConds(pb) {
							traceField(dc.cond, tname, map[ssa.Value]bool{}, fs)
						}
					}
				}
				if f, one := oneOf(fs); one {
					out[k] = f
				}
			}
		}
	}
	return out
}
