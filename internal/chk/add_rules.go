package chk

import (
	"fmt"
	"go/token"

	"golang.org/x/tools/go/ssa"
)

// ---- E12-G6 Add decides removal and clamping against the origin only (added after seeded change C09/2, round 3) --
// "Removes exactly the cues whose end would be at or before zero; clamps a negative start to zero":
// every comparison in Subtitles.Add that reads a cue boundary compares it with the constant 0, and a
// comparison of EndAt is `<= 0` (or its complement `> 0`). Comparing the two boundaries with each
// other (`EndAt <= StartAt` after clamping) also removes zero-length cues that are still in the
// future; `EndAt < 0` keeps a cue that ends exactly at the origin.
func ruleAddOriginTests(p *Prog, l *Ledger, tier string) {
	const rule = "E12.G6-add-origin-tests"
	const name = "Subtitles.Add"
	fn := anchor(p, l, rule, name)
	if fn == nil {
		return
	}
	boundary := func(v ssa.Value) string {
		v = stripAllConv(v)
		if t, f, _ := loadedField(v); t == "Item" && (f == "StartAt" || f == "EndAt") {
			return f
		}
		// the shifted value before it is stored back: x.EndAt + d
		if b, ok := v.(*ssa.BinOp); ok && (b.Op == token.ADD || b.Op == token.SUB) {
			if t, f, _ := loadedField(stripAllConv(b.X)); t == "Item" && (f == "StartAt" || f == "EndAt") {
				return f
			}
		}
		return ""
	}
	n := 0
	for _, b := range p.helperBlocks(fn) {
		for _, ins := range b.Instrs {
			bo, ok := ins.(*ssa.BinOp)
			if !ok {
				continue
			}
			switch bo.Op {
			case token.LSS, token.LEQ, token.GTR, token.GEQ, token.EQL, token.NEQ:
			default:
				continue
			}
			fx, fy := boundary(bo.X), boundary(bo.Y)
			if fx == "" && fy == "" {
				continue
			}
			n++
			key := l.Key(rule, name, "cmp", fx+bo.Op.String()+fy)
			pos := p.Pos(bo.Pos())
			if fx != "" && fy != "" {
				l.Fail(rule, name, key, pos, fmt.Sprintf("%s compares %s with %s: which cues are removed or clamped must depend on their position relative to the origin only (a zero-length cue still in the future satisfies EndAt <= StartAt and would be removed)", name, fx, fy))
				continue
			}
			f, other, op := fx, bo.Y, bo.Op
			if fx == "" {
				f, other = fy, bo.X
				op = map[token.Token]token.Token{token.LSS: token.GTR, token.LEQ: token.GEQ, token.GTR: token.LSS, token.GEQ: token.LEQ, token.EQL: token.EQL, token.NEQ: token.NEQ}[op]
			}
			c, isC := constInt(other)
			switch {
			case !isC || c != 0:
				l.Fail(rule, name, key, pos, fmt.Sprintf("%s compares %s with %s, not with the origin 0", name, f, descOf(other)))
			case f == "EndAt" && op != token.LEQ && op != token.GTR:
				l.Fail(rule, name, key, pos, fmt.Sprintf("%s tests EndAt %s 0: a cue is removed exactly when its shifted end is <= 0", name, op))
			default:
				l.Prove(rule, name, key, pos, fmt.Sprintf("%s %s 0", f, op))
			}
		}
	}
	l.Min(rule, n, 2)
}
