package chk

import (
	"fmt"
	"go/token"

	"golang.org/x/tools/go/ssa"
)

// ---- E12-G6 Add decides removal and clamping against the origin only (added after seeded change C09/2, round 3) --
// "Removes exactly the cues whose end would be at or before zero; clamps a negative start to zero":
// every comparison in Subtitles.Add that reads a cue boundary compares it with the constant 0, and a
// comparison of EndAt is `<= 0` (or its complement `> 0`). Comparing the two boundaries with each
// other (`EndAt <= StartAt` after clamping) also removes zero-length cues that are still in the
// future; `EndAt < 0` keeps a cue that ends exactly at the origin.
func ruleAddOriginTests(p *Prog, l *Ledger, tier string) {
	const rule = "E12.G6-add-origin-tests"
	const name = "Subtitles.Add"
	fn := anchor(p, l, rule, name)
	if fn == nil {
		return
	}
	boundary := func(v ssa.Value) string {
		v = stripAllConv(v)
		if t, f, _ := loadedField(v); t == "Item" && (f == "StartAt" || f == "EndAt") {
			return f
		}
		// the shifted value before it is stored back: x.EndAt + d
		if b, ok := v.(*ssa.BinOp); ok && (b.Op == token.ADD || b.Op == token.SUB) {
			if t, f, _ := loadedField(stripAllConv(b.X)); t == "Item" && (f == "StartAt" || f == "EndAt") {
				return f
			}
		}
		return ""
	}
	n := 0
	for _, b := range p.helperBlocks(fn) {
		for _, ins := range b.Instrs {
			bo, ok := ins.(*ssa.BinOp)
			if !ok {
				continue
			}
			switch bo.Op {
			case token.LSS, token.LEQ, token.GTR, token.GEQ, token.EQL, token.NEQ:
			default:
				continue
			}
			fx, fy := boundary(bo.X), boundary(bo.Y)
			if fx == "" && fy == "" {
				continue
			}
			n++
			key := l.Key(rule, name, "cmp", fx+bo.Op.String()+fy)
			pos := p.Pos(bo.Pos())
			if fx != "" && fy != "" {
				l.Fail(rule, name, key, pos, fmt.Sprintf("%s compares %s with %s: which cues are removed or clamped must depend on their position relative to the origin only (a zero-length cue still in the future satisfies EndAt <= StartAt and would be removed)", name, fx, fy))
				continue
			}
			f, other, op := fx, bo.Y, bo.Op
			if fx == "" {
				f, other = fy, bo.X
				op = map[token.Token]token.Token{token.LSS: token.GTR, token.LEQ: token.GEQ, token.GTR: token.LSS, token.GEQ: token.LEQ, token.EQL: token.EQL, token.NEQ: token.NEQ}[op]
			}
			// the running maximum of a scan over all cues (it.EndAt > max) decides nothing about one cue
			if ph, ok := stripAllConv(other).(*ssa.Phi); ok && maxScanOverItems(ph, loopsOf(bo.Parent())) {
				n--
				continue
			}
			c, isC := constInt(other)
			switch {
			case !isC || c != 0:
				l.Fail(rule, name, key, pos, fmt.Sprintf("%s compares %s with %s, not with the origin 0", name, f, descOf(other)))
			case f == "EndAt" && op != token.LEQ && op != token.GTR:
				l.Fail(rule, name, key, pos, fmt.Sprintf("%s tests EndAt %s 0: a cue is removed exactly when its shifted end is <= 0", name, op))
			default:
				l.Prove(rule, name, key, pos, fmt.Sprintf("%s %s 0", f, op))
			}
		}
	}
	l.Min(rule, n, 2)
	// bulk removal: a store that empties or truncates the list outside any per-cue loop removes cues
	// without having looked at each of them; that is only right when the test that guards it bounds
	// every cue's end – a maximum over all cues – and not the end of one designated cue (Duration()
	// is the end of the last listed cue, which need not be the one that ends last)
	for _, h := range p.Helpers(fn) {
		if fnPkg(h) != p.LibSSA || FnName(h) == "Subtitles.Order" {
			continue
		}
		loops := loopsOf(h)
		for _, b := range h.Blocks {
			inLoop := false
			for _, li := range loops {
				if li.blocks[b] {
					inLoop = true
				}
			}
			if inLoop {
				continue
			}
			for _, ins := range b.Instrs {
				st, ok := ins.(*ssa.Store)
				if !ok {
					continue
				}
				if t, f := fieldOfAddr(st.Addr); t != "Subtitles" || f != "Items" {
					continue
				}
				bulk := false
				switch v := st.Val.(type) {
				case *ssa.Slice:
					if _, f2, _ := loadedField(v.X); f2 == "Items" {
						bulk = true
						// s.Items[:n] with n counted by a loop over the cues is the per-cue filter idiom
						if v.High != nil {
							base, _ := linear(v.High)
							if ph, ok := base.(*ssa.Phi); ok {
								for _, li := range loops {
									if li.header == ph.Block() || li.blocks[ph.Block()] {
										bulk = false
									}
								}
								// the exit value of a counting loop: a phi whose operands come from a loop
								for _, e := range ph.Edges {
									if ei, ok := e.(ssa.Instruction); ok {
										for _, li := range loops {
											if li.blocks[ei.Block()] {
												bulk = false
											}
										}
									}
								}
							}
						}
					}
				case *ssa.Const:
					bulk = true
				case *ssa.MakeSlice:
					bulk = true
				}
				if !bulk {
					continue
				}
				key := l.Key(rule, name, "bulk-removal", "")
				pos := p.Pos(st.Pos())
				verdict, why := "", ""
				for _, dc := range dominatingConds(b) {
					bo, ok := dc.cond.(*ssa.BinOp)
					if !ok {
						continue
					}
					for _, side := range []ssa.Value{bo.X, bo.Y} {
						base := stripAllConv(side)
						if sum, ok := base.(*ssa.BinOp); ok && (sum.Op == token.ADD || sum.Op == token.SUB) {
							for _, s2 := range []ssa.Value{sum.X, sum.Y} {
								if k, d := endBoundKind(p, s2); k != "" {
									if verdict != "one-cue" {
										verdict, why = k, d
									}
								}
							}
							continue
						}
						if k, d := endBoundKind(p, base); k != "" {
							if verdict != "one-cue" {
								verdict, why = k, d
							}
						}
					}
				}
				switch verdict {
				case "max-scan":
					l.Prove(rule, name, key, pos, "the list is emptied in one go under a test of the maximum end over all cues")
				case "one-cue":
					l.Fail(rule, name, key, pos, fmt.Sprintf("%s empties or truncates the list in one go under a test of the end of one designated cue (%s): on a start-ordered list the last cue need not be the one that ends last ([0s,9s) then [1s,2s)), so a cue whose shifted end is still positive is removed with the others", name, why))
				default:
					l.Fail(rule, name, key, pos, fmt.Sprintf("%s empties or truncates the list outside the per-cue loop without a test that bounds every cue's end: cues whose shifted end is still positive can be removed", name))
				}
			}
		}
	}
}
