package chk

import (
	"fmt"
	"os"
	"path/filepath"
	"strings"

	"golang.org/x/tools/go/callgraph/cha"
	"golang.org/x/tools/go/callgraph/vta"
	"golang.org/x/tools/go/packages"
	"golang.org/x/tools/go/ssa"
	"golang.org/x/tools/go/ssa/ssautil"
)

// loadPositive loads /verif/selftest/positive as a stand-alone program (its own Prog).
func loadPositive(verifDir string) (*Prog, error) {
	dir := filepath.Join(verifDir, "selftest", "positive")
	cfg := &packages.Config{Mode: packages.LoadAllSyntax, Dir: dir, Env: append(os.Environ(), "GOFLAGS=-mod=mod", "GOPROXY=off", "GOSUMDB=off", "GOTOOLCHAIN=local", "GOWORK=off")}
	pkgs, err := packages.Load(cfg, ".")
	if err != nil || len(pkgs) != 1 || len(pkgs[0].Errors) > 0 {
		return nil, fmt.Errorf("positive control package does not load: %v %v", err, pkgs)
	}
	p := &Prog{Repo: dir, byName: map[string]*ssa.Function{}, Lib: pkgs[0], Fset: pkgs[0].Fset}
	prog, _ := ssautil.AllPackages(pkgs, ssa.InstantiateGenerics)
	prog.Build()
	p.SSA = prog
	p.LibSSA = prog.Package(pkgs[0].Types)
	p.AllFns = ssautil.AllFunctions(prog)
	p.CHA = cha.CallGraph(prog)
	p.CG = vta.CallGraph(p.AllFns, p.CHA)
	for fn := range p.AllFns {
		if fn.Synthetic != "" && fn.Synthetic != "package initializer" {
			continue
		}
		if fnPkg(fn) == p.LibSSA {
			p.LibFns = append(p.LibFns, fn)
			p.byName[FnName(fn)] = fn
		}
	}
	return p, nil
}

var positiveProg *Prog
var positiveErr error

// rulePositiveControls runs the named detectors on the positive-control package.
func rulePositiveControls(which ...string) func(p *Prog, l *Ledger, tier string) {
	return func(_ *Prog, l *Ledger, tier string) {
		const rule = "positive-control"
		if positiveProg == nil && positiveErr == nil {
			positiveProg, positiveErr = loadPositive(VerifDir)
		}
		if positiveErr != nil {
			l.Undecide(rule, "", rule+"|load", "", positiveErr.Error())
			return
		}
		pp := positiveProg
		report := func(name string, fired bool, what string) {
			key := rule + "|" + name
			if fired {
				l.Prove(rule, "", key, "", "the detector fires on its positive example: "+what)
			} else {
				l.Undecide(rule, "", key, "", "the detector no longer fires on its positive example ("+what+"): a zero-expected rule would now pass vacuously")
			}
		}
		for _, w := range which {
			switch w {
			case "raw-read":
				n := 0
				for _, fn := range pp.LibFns {
					for _, b := range fn.Blocks {
						for _, ins := range b.Instrs {
							if site, ok := ins.(ssa.CallInstruction); ok && isRawRead(site.Common()) {
								n++
							}
						}
					}
				}
				report(w, n == 1, "PosRawRead calls r.Read once")
			case "global-write":
				e := ComputeEffects(pp)
				fn := pp.Fn("PosGlobalWrite")
				hit := 0
				if fn != nil {
					for _, ef := range e.Sum[fn].Effects {
						if strings.HasPrefix(rootBase(ef.Root), "G:") {
							hit++
						}
					}
				}
				clean := true
				if f2 := pp.Fn("NegMapOrder"); f2 != nil {
					for _, ef := range e.Sum[f2].Effects {
						if strings.HasPrefix(rootBase(ef.Root), "G:") {
							clean = false
						}
					}
				}
				report(w, hit >= 2 && clean, "PosGlobalWrite stores into a package-level map and array; NegMapOrder has no global effect")
			case "param-write":
				e := ComputeEffects(pp)
				fn := pp.Fn("PosMutatesArg")
				hit := false
				if fn != nil {
					for _, ef := range e.Sum[fn].Effects {
						if rootBase(ef.Root) == "P0" && strings.HasSuffix(ef.Loc, ".A") {
							hit = true
						}
					}
				}
				report(w, hit, "PosMutatesArg writes field A of its parameter")
			case "manufactured-eof":
				var fns []*ssa.Function
				if fn := pp.Fn("PosManufacturedEOF"); fn != nil {
					fns = append(fns, fn)
				}
				_, bad, _ := sentinelMisuses(fns, pp.Pos)
				report(w, len(bad) == 1, "PosManufacturedEOF assigns io.EOF to its error")
			case "go-stmt":
				n := 0
				for _, fn := range pp.LibFns {
					for _, b := range fn.Blocks {
						for _, ins := range b.Instrs {
							if _, ok := ins.(*ssa.Go); ok {
								n++
							}
						}
					}
				}
				report(w, n == 1, "PosGo starts a goroutine")
			case "nondet":
				n := 0
				if fn := pp.Fn("PosClock"); fn != nil {
					for _, b := range fn.Blocks {
						for _, ins := range b.Instrs {
							if site, ok := ins.(ssa.CallInstruction); ok {
								if sc := site.Common().StaticCallee(); sc != nil && sc.Pkg != nil {
									if _, ok := nondetFuncs[sc.String()]; ok {
										n++
									} else if _, ok := nondetPkgs[sc.Pkg.Pkg.Path()]; ok {
										n++
									}
								}
							}
						}
					}
				}
				report(w, n == 2, "PosClock calls time.Now and math/rand")
			case "maporder":
				tmp := &Ledger{Prop: "positive", residue: map[string]string{}, resUsed: map[string]bool{}, known: map[string]string{}, knownUsed: map[string]bool{}, keyCount: map[string]int{}}
				bad, good := 0, 0
				for _, name := range []string{"PosMapOrder", "NegMapOrder"} {
					if fn := pp.Fn(name); fn != nil {
						for _, ml := range mapLoops(fn) {
							before := len(tmp.Obs)
							checkMapLoop(pp, tmp, "x", ml)
							for _, o := range tmp.Obs[before:] {
								if o.Status == Violation && name == "PosMapOrder" {
									bad++
								}
								if o.Status == Proved && name == "NegMapOrder" {
									good++
								}
							}
						}
					}
				}
				report(w, bad == 1 && good == 1, "PosMapOrder's unsorted append is flagged, NegMapOrder's sorted one is accepted")
			case "panic":
				n := 0
				for _, fn := range pp.LibFns {
					for _, b := range fn.Blocks {
						for _, ins := range b.Instrs {
							if _, ok := ins.(*ssa.Panic); ok {
								n++
							}
						}
					}
				}
				report(w, n == 1, "PosPanic contains an explicit panic")
			}
		}
	}
}

// VerifDir is set by main (location of the selftest directory).
var VerifDir = "/verif"
