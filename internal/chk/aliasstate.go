package chk

import (
	"fmt"
	"go/types"

	"golang.org/x/tools/go/ssa"
)

// ---- E5-R5.5 results do not keep the address of running state (added after seeded change C01/r9) -----------
// A reader that walks its input keeps running state (the emphasis and colour in force, the style being built)
// in a struct and hands out one result object per piece of text. If a result stores the ADDRESS of a field of
// that state (sa.SRTColor = &st.color) instead of a copy of its value, every result taken while the state lived
// shares the field: a later tag that overwrites it changes, retroactively, what the earlier runs say. Rule: in
// the reader closure, a store of &X.f into a field of another object is a violation when field f of X's type is
// also assigned somewhere else in the closure other than in the initialisation of a freshly allocated X.

func ruleNoAddressOfRunningState(scope func(*Prog, *Ledger, string) []*ssa.Function) func(p *Prog, l *Ledger, tier string) {
	return func(p *Prog, l *Ledger, tier string) {
		const rule = "E5.R5.5-no-address-of-running-state"
		fns := scope(p, l, rule)
		// assignments to a field outside the literal of a fresh object: T.f -> a position
		assigned := map[string]ssa.Instruction{}
		for _, fn := range fns {
			if fnPkg(fn) != p.LibSSA {
				continue
			}
			for _, b := range fn.Blocks {
				for _, ins := range b.Instrs {
					st, ok := ins.(*ssa.Store)
					if !ok {
						continue
					}
					fa, ok := st.Addr.(*ssa.FieldAddr)
					if !ok {
						continue
					}
					if al, isAlloc := fa.X.(*ssa.Alloc); isAlloc && al.Heap && al.Block() == b {
						continue // &T{f: v}: initialisation of a fresh object
					}
					t, f := fieldOfAddr(fa)
					if t != "" && assigned[t+"."+f] == nil {
						assigned[t+"."+f] = st
					}
				}
			}
		}
		n, sites := 0, 0
		for _, fn := range fns {
			if fnPkg(fn) != p.LibSSA {
				continue
			}
			n++
			for _, b := range fn.Blocks {
				for _, ins := range b.Instrs {
					st, ok := ins.(*ssa.Store)
					if !ok {
						continue
					}
					dst, ok := st.Addr.(*ssa.FieldAddr)
					if !ok {
						continue
					}
					src, ok := st.Val.(*ssa.FieldAddr)
					if !ok {
						continue
					}
					// the address of a field of a value type (not of an embedded sub-object handed out as a whole)
					ft := src.Type().Underlying().(*types.Pointer).Elem()
					if _, isStruct := ft.Underlying().(*types.Struct); isStruct {
						continue
					}
					sites++
					t, f := fieldOfAddr(src)
					dt, df := fieldOfAddr(dst)
					key := l.Key(rule, FnName(fn), "address-stored", t+"."+f+"->"+dt+"."+df)
					if w := assigned[t+"."+f]; w != nil {
						l.Fail(rule, FnName(fn), key, p.Pos(st.Pos()), fmt.Sprintf("%s stores the address of %s.%s into %s.%s, and %s.%s is assigned again at %s: every result that took the address shares the field, so a later assignment changes what the earlier results say (copy the value instead)", FnName(fn), t, f, dt, df, t, f, p.Pos(w.Pos())))
					} else {
						l.Prove(rule, FnName(fn), key, p.Pos(st.Pos()), fmt.Sprintf("the address of %s.%s is kept in %s.%s, and %s.%s is never assigned outside the initialisation of a fresh %s", t, f, dt, df, t, f, t))
					}
				}
			}
		}
		l.Note("%s: %d functions scanned, %d stores of a field address into another object", rule, n, sites)
		l.Min(rule, n, 10)
	}
}
