package chk

import (
	"fmt"
	"regexp"
	"strings"

	"golang.org/x/tools/go/ssa"
)

// ---- E9-T1: HTML escape tables ---------------------------------------------------------------------

func replacerPairs(p *Prog, global string) ([][2]string, bool) {
	c, ok := p.globalInit(global).(*ssa.Call)
	if !ok {
		return nil, false
	}
	if sc := c.Call.StaticCallee(); sc == nil || sc.String() != "strings.NewReplacer" {
		return nil, false
	}
	vals, ok := sliceLiteral(c.Call.Args[0])
	if !ok {
		return nil, false
	}
	strs, ok := stringsOf(vals)
	if !ok || len(strs)%2 != 0 {
		return nil, false
	}
	var out [][2]string
	for i := 0; i < len(strs); i += 2 {
		out = append(out, [2]string{strs[i], strs[i+1]})
	}
	return out, true
}

func ruleEscapeTables(p *Prog, l *Ledger, tier string) {
	const rule = "E9.T1-escape-tables"
	ep, up := p.escapeProgramOf("escapeHTML"), p.escapeProgramOf("unescapeHTML")
	if ep.why != "" || up.why != "" {
		l.Undecide(rule, "", rule, "", "extraction-below-minimum: escapeHTML / unescapeHTML are not read as replacement programs ("+ep.why+up.why+")")
		return
	}
	esc, un := ep.flat(), up.flat()
	if ep.sequential() || up.sequential() {
		fails, und, proved := escSequentialVerdict(ep, up)
		for _, f := range fails {
			l.Fail(rule, "", rule+"|staged|"+f.msg, p.Pos(f.pos), f.msg)
		}
		if und != "" {
			l.Undecide(rule, "", rule+"|staged", "", und)
		}
		for _, pr := range proved {
			l.Prove(rule, "", rule+"|staged", "", pr)
		}
	}
	unm := map[string]string{}
	for _, pr := range un {
		unm[pr[0]] = pr[1]
	}
	escm := map[string]string{}
	for _, pr := range esc {
		escm[pr[0]] = pr[1]
		key := fmt.Sprintf("%s|escape|%q", rule, pr[0])
		back, ok := unm[pr[1]]
		switch {
		case !ok:
			l.Fail(rule, "", key, "", fmt.Sprintf("%q is escaped as %q but the unescape table has no entry for %q: the character comes back as the entity text", pr[0], pr[1], pr[1]))
		case back != pr[0]:
			l.Fail(rule, "", key, "", fmt.Sprintf("%q is escaped as %q, which is unescaped to %q", pr[0], pr[1], back))
		case !strings.HasPrefix(pr[1], "&"):
			l.Fail(rule, "", key, "", fmt.Sprintf("the escaped form %q of %q does not start with '&'", pr[1], pr[0]))
		default:
			l.Prove(rule, "", key, "", fmt.Sprintf("%q ↔ %q", pr[0], pr[1]))
		}
	}
	for _, pr := range un {
		if _, ok := escapedBy(esc, pr[0]); !ok {
			l.Fail(rule, "", fmt.Sprintf("%s|unescape|%q", rule, pr[0]), "", fmt.Sprintf("%q is unescaped to %q but never produced by the escaper: source text containing it literally is altered on reading", pr[0], pr[1]))
		}
	}
	if _, ok := escm["&"]; ok {
		l.Prove(rule, "", rule+"|ampersand", "", "'&' itself is escaped, so literal entity text survives")
	} else {
		l.Fail(rule, "", rule+"|ampersand", "", "'&' is not escaped: text such as \"&lt;\" is turned into '<' by the reader")
	}
	// no escaped form is a prefix of another (the replacer would pick by argument order)
	for i, a := range esc {
		for j, b := range esc {
			if i != j && strings.HasPrefix(b[1], a[1]) {
				l.Fail(rule, "", fmt.Sprintf("%s|prefix|%q|%q", rule, a[1], b[1]), "", fmt.Sprintf("escaped form %q is a prefix of %q", a[1], b[1]))
			}
		}
	}
	l.Min(rule, len(esc), 3)
}

func escapedBy(esc [][2]string, form string) (string, bool) {
	for _, pr := range esc {
		if pr[1] == form {
			return pr[0], true
		}
	}
	return "", false
}

// ---- E10-A6: timestamp formats agree per format ------------------------------------------------------

type durCall struct {
	seps   []string
	digits int64
	ok     bool
	pos    string
}

// durationCall finds the call to callee (formatDuration / parseDuration) in fn.
func durationCall(p *Prog, fn *ssa.Function, callee string) durCall {
	var out durCall
	for _, b := range fn.Blocks {
		for _, ins := range b.Instrs {
			c, ok := ins.(*ssa.Call)
			if !ok {
				continue
			}
			sc := c.Call.StaticCallee()
			if sc == nil || FnName(sc) != callee {
				continue
			}
			out.pos = p.Pos(c.Pos())
			if d, ok := constInt(c.Call.Args[2]); ok {
				out.digits = d
			} else {
				return out
			}
			if s, ok := constStr(c.Call.Args[1]); ok {
				out.seps = append(out.seps, s)
			} else if u, ok := c.Call.Args[1].(*ssa.UnOp); ok {
				// loop variable over a literal list of separators
				if ia, ok := u.X.(*ssa.IndexAddr); ok {
					if vals, ok := sliceLiteral(ia.X); ok {
						if ss, ok := stringsOf(vals); ok {
							out.seps = ss
						}
					}
				}
			}
			out.ok = len(out.seps) > 0
		}
	}
	return out
}

var timeFormats = []struct {
	name           string
	writer, reader string // wrapper functions
	wEntry, rEntry string // codec entry points that must reach exactly these wrappers
}{
	{"SRT", "formatDurationSRT", "parseDurationSRT", "Subtitles.WriteToSRT", "ReadFromSRT"},
	{"WebVTT", "formatDurationWebVTT", "parseDurationWebVTT", "Subtitles.WriteToWebVTT", "ReadFromWebVTT"},
	{"SSA", "formatDurationSSA", "parseDurationSSA", "Subtitles.WriteToSSA", "ReadFromSSAWithOptions"},
	{"TTML", "TTMLOutDuration.MarshalText", "TTMLInDuration.UnmarshalText", "", ""},
}

func ruleDurationFormats(only ...string) func(p *Prog, l *Ledger, tier string) {
	return func(p *Prog, l *Ledger, tier string) {
		const rule = "E10.A6-timestamp-format"
		n := 0
		allWrappersW, allWrappersR := strset{}, strset{}
		for _, tf := range timeFormats {
			allWrappersW.add(tf.writer)
			allWrappersR.add(tf.reader)
		}
		for _, tf := range timeFormats {
			if len(only) > 0 && !containsStr(only, tf.name) {
				continue
			}
			wf, rf := anchor(p, l, rule, tf.writer), anchor(p, l, rule, tf.reader)
			if wf == nil || rf == nil {
				continue
			}
			w := durationCall(p, wf, "formatDuration")
			r := durationCall(p, rf, "parseDuration")
			n++
			key := rule + "|" + tf.name
			if !w.ok || !r.ok {
				l.Undecide(rule, "", key, "", fmt.Sprintf("extraction-below-minimum: %s does not call formatDuration / %s does not call parseDuration with constant separator and digit count", tf.writer, tf.reader))
				continue
			}
			var problems []string
			if !containsStr(r.seps, w.seps[0]) {
				problems = append(problems, fmt.Sprintf("the writer separates the fraction with %q, the reader only tries %q", w.seps[0], r.seps))
			}
			if r.digits != 3 {
				problems = append(problems, fmt.Sprintf("the reader scales the fraction to %d digits per millisecond unit instead of 3 (parseDuration's parameter is the number of digits that make a millisecond)", r.digits))
			}
			if w.digits != 2 && w.digits != 3 {
				problems = append(problems, fmt.Sprintf("the writer prints %d fraction digits", w.digits))
			}
			if len(problems) > 0 {
				l.Fail(rule, "", key, w.pos, tf.name+": "+strings.Join(problems, "; "))
			} else {
				l.Prove(rule, "", key, w.pos, fmt.Sprintf("%s: written with %q and %d digits; read with separators %q at millisecond scale", tf.name, w.seps[0], w.digits, r.seps))
			}
			// the codec uses its own wrappers only
			if tf.wEntry != "" {
				for _, side := range []struct {
					entry string
					own   string
					all   strset
				}{{tf.wEntry, tf.writer, allWrappersW}, {tf.rEntry, tf.reader, allWrappersR}} {
					ef := anchor(p, l, rule, side.entry)
					if ef == nil {
						continue
					}
					// what the entry calls by name, and the functions it hands as arguments to the helpers it calls by name
					// (a shared helper that receives the parser as a function value is called by both codecs: the call
					// graph alone would make each codec reach the other's wrapper through it)
					used := strset{}
					seenF := map[*ssa.Function]bool{}
					work := []*ssa.Function{ef}
					for len(work) > 0 {
						f := work[len(work)-1]
						work = work[:len(work)-1]
						if f == nil || seenF[f] || len(f.Blocks) == 0 {
							continue
						}
						seenF[f] = true
						if side.all[FnName(f)] {
							used.add(FnName(f))
						}
						for _, af := range f.AnonFuncs {
							work = append(work, af)
						}
						for _, b := range f.Blocks {
							for _, ins := range b.Instrs {
								c, ok := ins.(ssa.CallInstruction)
								if !ok {
									continue
								}
								if sc := c.Common().StaticCallee(); sc != nil && fnPkg(sc) == p.LibSSA {
									work = append(work, sc)
								}
								for _, a := range c.Common().Args {
									switch fv := a.(type) {
									case *ssa.Function:
										work = append(work, fv)
									case *ssa.MakeClosure:
										if cf, ok := fv.Fn.(*ssa.Function); ok {
											work = append(work, cf)
										}
									}
								}
							}
						}
					}
					k2 := rule + "|" + tf.name + "|uses|" + side.entry
					if len(used) == 1 && used[side.own] {
						l.Prove(rule, "", k2, "", side.entry+" reaches only "+side.own)
					} else {
						l.Fail(rule, "", k2, "", fmt.Sprintf("%s reaches the timestamp wrappers %v instead of only %s", side.entry, used.sorted(), side.own))
					}
				}
			}
			// WebVTT: the inline timestamp pattern accepts what the writer prints
			if tf.name == "WebVTT" {
				if c, ok := p.globalInit("webVTTRegexpInlineTimestamp").(*ssa.Call); ok {
					if pat, ok := constStr(c.Call.Args[0]); ok {
						sample := "<00:00:00" + w.seps[0] + strings.Repeat("0", int(w.digits)) + ">"
						k3 := rule + "|WebVTT|inline-timestamp-pattern"
						if re, err := regexp.Compile(pat); err == nil && re.MatchString(sample) {
							l.Prove(rule, "", k3, "", fmt.Sprintf("the inline timestamp pattern matches the writer's shape %s", sample))
						} else {
							l.Fail(rule, "", k3, "", fmt.Sprintf("the inline timestamp pattern %s does not match what the writer prints (%s)", pat, sample))
						}
					}
				}
			}
		}
		if len(only) == 0 || containsStr(only, "STL") {
			// STL: formatter and parser take the frame rate from gsiBlock.framerate
			for _, fnName := range []string{"gsiBlock.bytes", "ttiBlock.bytes", "parseGSIBlock", "ReadFromSTL"} {
				fn := anchor(p, l, rule, fnName)
				if fn == nil {
					continue
				}
				for _, b := range fn.Blocks {
					for _, ins := range b.Instrs {
						c, ok := ins.(*ssa.Call)
						if !ok {
							continue
						}
						sc := c.Call.StaticCallee()
						if sc == nil {
							continue
						}
						cn := FnName(sc)
						if cn != "formatDurationSTL" && cn != "formatDurationSTLBytes" && cn != "parseDurationSTL" && cn != "parseTTIBlock" {
							continue
						}
						n++
						key := l.Key(rule, fnName, "stl-framerate", cn)
						s := strset{}
						traceField(c.Call.Args[1], "gsiBlock", map[ssa.Value]bool{}, s)
						if s["framerate"] && len(s) == 1 {
							l.Prove(rule, fnName, key, p.Pos(c.Pos()), cn+" receives gsiBlock.framerate")
						} else {
							l.Fail(rule, fnName, key, p.Pos(c.Pos()), fmt.Sprintf("%s is called with a frame rate that is not gsiBlock.framerate (traced to %v): formatter and parser may use different rates", cn, s.sorted()))
						}
					}
				}
			}
		}
		l.Min(rule, n, 1)
	}
}

func containsStr(list []string, s string) bool {
	for _, x := range list {
		if x == s {
			return true
		}
	}
	return false
}
