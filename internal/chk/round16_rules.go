package chk

import (
	"fmt"
	"go/token"
	"go/types"
	"strings"

	"golang.org/x/tools/go/ssa"
)

// Rules added after the sixteenth round of seeded changes.

// ---- E12-G17 a magazine-level designation (M/29) is taken whether or not a page is being received (C06/r16) ----------
// X/28 belongs to the page being received; M/29 applies to the whole magazine and is normally sent between pages.
// parsePacket is evaluated with packetNumber fixed at 29, every load of b.receiving false and every Hamming decode
// succeeding: some path has to reach the call that records the M/29 triplet.
func ruleM29NotGatedByReceiving(p *Prog, l *Ledger, tier string) {
	const rule = "E12.G17-m29-not-gated-by-receiving"
	const name = "teletextPageBuffer.parsePacket"
	fn := anchor(p, l, rule, name)
	if fn == nil {
		return
	}
	var pn *ssa.Parameter
	for _, par := range fn.Params {
		if par.Name() == "packetNumber" {
			pn = par
		}
	}
	// calls of parsePacket that (transitively) record the M/29 triplet
	records := func(h *ssa.Function) bool {
		for _, g := range p.Helpers(h) {
			if strings.HasSuffix(FnName(g), "setTripletM29") {
				return true
			}
			for _, b := range g.Blocks {
				for _, ins := range b.Instrs {
					// the field is stored into, or its address is handed on (to a setter shared with X/28)
					if fa, ok := ins.(*ssa.FieldAddr); ok && fieldName(fa.X.Type(), fa.Field) == "tripletM29" {
						for _, r := range *fa.Referrers() {
							if u, isLoad := r.(*ssa.UnOp); isLoad && u.Op == token.MUL {
								continue
							}
							return true
						}
					}
				}
			}
		}
		return false
	}
	target := map[*ssa.BasicBlock]bool{}
	for _, b := range fn.Blocks {
		for _, ins := range b.Instrs {
			if c, ok := ins.(*ssa.Call); ok {
				if sc := c.Call.StaticCallee(); sc != nil && fnPkg(sc) == p.LibSSA && records(sc) {
					target[b] = true
				}
			}
		}
	}
	if pn == nil || len(target) == 0 {
		l.Undecide(rule, name, rule+"|shape", p.Pos(fn.Pos()), "the packetNumber parameter of parsePacket or the call that records the M/29 triplet was not found")
		return
	}
	env0 := map[ssa.Value]pv{pn: {i: 29}}
	for _, b := range fn.Blocks {
		for _, ins := range b.Instrs {
			switch x := ins.(type) {
			case *ssa.UnOp:
				if _, f, _ := loadedField(x); f == "receiving" {
					env0[x] = pv{isBool: true, b: false}
				}
			case *ssa.Extract:
				if c, ok := x.Tuple.(*ssa.Call); ok && x.Index == 1 && strings.HasSuffix(calleeName(&c.Call), "ByteHamming84Decode") {
					env0[x] = pv{isBool: true, b: true}
				}
			}
		}
	}
	reached := false
	steps := 0
	var run func(b, pred *ssa.BasicBlock, env map[ssa.Value]pv, seen map[*ssa.BasicBlock]bool)
	run = func(b, pred *ssa.BasicBlock, env map[ssa.Value]pv, seen map[*ssa.BasicBlock]bool) {
		steps++
		if reached || steps > 5000 || seen[b] {
			return
		}
		seen[b] = true
		if pred != nil {
			for i, pb := range b.Preds {
				if pb != pred {
					continue
				}
				for _, ins := range b.Instrs {
					ph, isPhi := ins.(*ssa.Phi)
					if !isPhi {
						break
					}
					if v, ok := pevalValue(ph.Edges[i], env, 0); ok {
						env[ph] = v
					} else {
						delete(env, ph)
					}
				}
			}
		}
		if target[b] {
			reached = true
			return
		}
		switch last := b.Instrs[len(b.Instrs)-1].(type) {
		case *ssa.If:
			if c, ok := pevalValue(last.Cond, env, 0); ok && c.isBool {
				s := b.Succs[1]
				if c.b {
					s = b.Succs[0]
				}
				run(s, b, env, seen)
				return
			}
			for _, s := range b.Succs {
				e2 := map[ssa.Value]pv{}
				for k, v := range env {
					e2[k] = v
				}
				s2 := map[*ssa.BasicBlock]bool{}
				for k := range seen {
					s2[k] = true
				}
				run(s, b, e2, s2)
			}
		case *ssa.Jump:
			run(b.Succs[0], b, env, seen)
		}
	}
	run(fn.Blocks[0], nil, env0, map[*ssa.BasicBlock]bool{})
	if reached {
		l.Prove(rule, name, rule, p.Pos(fn.Pos()), "with packetNumber 29 and no page being received, a path reaches the call that records the magazine's designation")
	} else {
		l.Fail(rule, name, rule, p.Pos(fn.Pos()), "teletextPageBuffer.parsePacket: with packetNumber 29 and b.receiving false no path reaches the call that records the M/29 triplet: a magazine-level character set designation sent between two pages (where it normally is) is dropped, and the pages that follow are decoded with the default character set")
	}
}

// ---- E5-R5.7 package-level containers are not handed out inside the model (C14, C20/r16) ------------------------------
// A slice, map or pointer loaded from a package-level variable and stored into a field of a model struct (or into an
// element of a list of the model) makes every object built that way share one backing store: a caller that edits
// one of them edits the "constant" all later results start from.  Package-level tables may be read, ranged over,
// indexed and passed to functions; what goes into the model is built per call.
func ruleNoSharedContainerInModel(p *Prog, l *Ledger, tier string) {
	const rule = "E5.R5.7-no-shared-container-in-model"
	isRef := func(t types.Type) bool {
		switch t.Underlying().(type) {
		case *types.Slice, *types.Map:
			return true
		}
		return false
	}
	var fromGlobal func(v ssa.Value, seen map[ssa.Value]bool) *ssa.Global
	fromGlobal = func(v ssa.Value, seen map[ssa.Value]bool) *ssa.Global {
		if v == nil || seen[v] {
			return nil
		}
		seen[v] = true
		switch x := v.(type) {
		case *ssa.UnOp:
			if x.Op == token.MUL {
				if g, ok := x.X.(*ssa.Global); ok && g.Pkg == p.LibSSA {
					return g
				}
			}
		case *ssa.Phi:
			for _, e := range x.Edges {
				if g := fromGlobal(e, seen); g != nil {
					return g
				}
			}
		case *ssa.Slice:
			return fromGlobal(x.X, seen)
		case *ssa.ChangeType:
			return fromGlobal(x.X, seen)
		}
		return nil
	}
	modelField := func(addr ssa.Value) string {
		fa, ok := addr.(*ssa.FieldAddr)
		if !ok {
			return ""
		}
		pt, ok := fa.X.Type().Underlying().(*types.Pointer)
		if !ok {
			return ""
		}
		nt, ok := pt.Elem().(*types.Named)
		if !ok || nt.Obj().Pkg() == nil || nt.Obj().Pkg().Path() != LibPath || !nt.Obj().Exported() {
			return ""
		}
		return nt.Obj().Name() + "." + fieldName(fa.X.Type(), fa.Field)
	}
	n, bad := 0, 0
	for _, fn := range p.LibFns {
		if FnName(fn) == "init" || strings.HasPrefix(FnName(fn), "init#") {
			continue
		}
		for _, b := range fn.Blocks {
			for _, ins := range b.Instrs {
				st, ok := ins.(*ssa.Store)
				if !ok || !isRef(st.Val.Type()) {
					continue
				}
				f := modelField(st.Addr)
				if f == "" {
					continue
				}
				n++
				if g := fromGlobal(st.Val, map[ssa.Value]bool{}); g != nil {
					bad++
					l.Fail(rule, FnName(fn), l.Key(rule, FnName(fn), f, g.Name()), p.Pos(st.Pos()), fmt.Sprintf("%s stores the package-level %s itself (not a copy) into %s: every object built this way shares one backing store, so an edit a caller makes to one of them (a relabelled placeholder, an appended run) shows up in all that are built later, in this call or any other", FnName(fn), g.Name(), f))
				}
			}
		}
	}
	if bad == 0 {
		l.Prove(rule, "", rule+"|none", "", fmt.Sprintf("%d stores of slices and maps into fields of exported model structs: none is a package-level container itself", n))
	}
	l.Min(rule, n, 5)
}
