package chk

import (
	"fmt"
	"go/types"
	"strings"

	"golang.org/x/tools/go/ssa"
)

// E8 readerflow (DESIGN.md §3 E8).

// chunkAgnosticConsumers: external callees that may receive an io.Reader, with the argument
// position; each is documented to loop over short reads.
var chunkAgnosticConsumers = map[string]int{
	"bufio.NewScanner": 0, "bufio.NewReader": 0, "bufio.NewReaderSize": 0,
	"encoding/xml.NewDecoder":                  0,
	"github.com/asticode/go-astits.NewDemuxer": 1,
	"io.ReadFull":                              0, "io.ReadAtLeast": 0, "io.ReadAll": 0, "io/ioutil.ReadAll": 0,
	"io.Copy": 1, "io.CopyN": 1, "io.CopyBuffer": 1,
	"io.LimitReader": 0, "io.TeeReader": 0, "io.MultiReader": -2,
	"golang.org/x/net/html.NewTokenizer": 0,
}

func isIOReader(t types.Type) bool {
	nt, ok := t.(*types.Named)
	return ok && nt.Obj().Pkg() != nil && nt.Obj().Pkg().Path() == "io" && nt.Obj().Name() == "Reader"
}

// isRawRead: a call of a method Read([]byte) (int, error) — one call may return fewer bytes than asked.
func isRawRead(c *ssa.CallCommon) bool {
	var name string
	var sig *types.Signature
	if c.IsInvoke() {
		name, sig = c.Method.Name(), c.Method.Type().(*types.Signature)
	} else if f := c.StaticCallee(); f != nil && f.Signature.Recv() != nil {
		name, sig = f.Name(), f.Signature
	} else {
		return false
	}
	if name != "Read" || sig.Params().Len() != 1 || sig.Results().Len() != 2 {
		return false
	}
	sl, ok := sig.Params().At(0).Type().Underlying().(*types.Slice)
	if !ok {
		return false
	}
	b, ok := sl.Elem().Underlying().(*types.Basic)
	return ok && b.Kind() == types.Uint8 && isErrorType(sig.Results().At(1).Type())
}

// ruleReaderFlow: R8.1 — io.Reader parameters flow only into chunk-agnostic consumers; no raw Read.
func ruleReaderFlow(p *Prog, l *Ledger, tier string) {
	const rule = "E8.R8.1-reader-flow"
	nParams := 0
	for _, fn := range p.LibFns {
		fname := FnName(fn)
		// zero-rule: no raw Read anywhere in the library
		for _, b := range fn.Blocks {
			for _, ins := range b.Instrs {
				if site, ok := ins.(ssa.CallInstruction); ok && isRawRead(site.Common()) {
					if call, isCall := ins.(*ssa.Call); isCall {
						if fl, why := recogniseFillLoop(fn, call); fl != nil {
							l.Prove(rule, fname, l.Key(rule, fname, "fill-loop", calleeName(site.Common())), p.Pos(site.Pos()), "Read sits in a read-until-full loop: offset advanced by the count, exits only on full buffer or error, error looked at only when the buffer is not full")
							continue
						} else {
							l.Note("%s: direct Read at %s is not a verified fill loop: %s", rule, p.Pos(site.Pos()), why)
						}
					}
					l.Fail(rule, fname, l.Key(rule, fname, "raw-read", calleeName(site.Common())), p.Pos(site.Pos()),
						fname+" calls "+calleeName(site.Common())+" directly: a single Read may return fewer bytes than requested (and data together with io.EOF), so the result depends on how the stream delivers its bytes; use io.ReadFull or a buffered consumer")
				}
			}
		}
		for _, par := range fn.Params {
			if !isIOReader(par.Type()) {
				continue
			}
			nParams++
			key := l.Key(rule, fname, "reader-param", par.Name())
			var problems []string
			var sinks []string
			seen := map[ssa.Value]bool{}
			var follow func(v ssa.Value)
			follow = func(v ssa.Value) {
				if seen[v] {
					return
				}
				seen[v] = true
				for _, ref := range *v.Referrers() {
					switch r := ref.(type) {
					case *ssa.Phi:
						follow(r)
					case *ssa.ChangeInterface:
						follow(r)
					case *ssa.MakeInterface:
						follow(r)
					case *ssa.TypeAssert:
						problems = append(problems, "type-asserted at "+p.Pos(r.Pos())+" (may reach a raw Read through the concrete type)")
					case ssa.CallInstruction:
						c := r.Common()
						if c.IsInvoke() && c.Value == v {
							if isRawRead(c) {
								continue // already reported by the zero-rule
							}
							problems = append(problems, "method "+c.Method.Name()+" invoked on it at "+p.Pos(r.Pos()))
							continue
						}
						if b, ok := c.Value.(*ssa.Builtin); ok {
							problems = append(problems, "passed to builtin "+b.Name())
							continue
						}
						in, ext := p.Callees(fn, r)
						for _, callee := range in {
							okParam := false
							for i, a := range c.Args {
								if a == v && i < len(callee.Params) && isIOReader(callee.Params[i].Type()) {
									okParam = true
								}
							}
							if okParam {
								sinks = append(sinks, FnName(callee))
							} else {
								problems = append(problems, "passed to "+FnName(callee)+" as a non-io.Reader parameter at "+p.Pos(r.Pos()))
							}
						}
						if ext {
							name := calleeName(c)
							pos, ok := chunkAgnosticConsumers[name]
							okArg := false
							if ok {
								for i, a := range c.Args {
									if a == v && (i == pos || pos == -2) {
										okArg = true
									}
								}
							}
							if okArg && name == "io.ReadAtLeast" && !readAtLeastIsFull(c) {
								problems = append(problems, "read with io.ReadAtLeast at "+p.Pos(r.Pos())+" with a minimum that is not the length of the buffer: how many bytes beyond the minimum arrive in one call depends on how the stream delivers them, so a block cut by a short read is taken for a truncated one")
							} else if okArg {
								sinks = append(sinks, name)
							} else {
								problems = append(problems, "passed to "+name+" at "+p.Pos(r.Pos())+", which is not a listed chunk-agnostic consumer")
							}
						}
					case *ssa.Store:
						problems = append(problems, "stored to memory at "+p.Pos(r.Pos())+" (escapes the analysis)")
					case *ssa.MakeClosure:
						problems = append(problems, "captured by a closure at "+p.Pos(r.Pos()))
					case *ssa.Return:
						problems = append(problems, "returned at "+p.Pos(r.Pos()))
					case *ssa.DebugRef:
					default:
						problems = append(problems, fmt.Sprintf("used by %T at %s", ref, p.Pos(ref.Pos())))
					}
				}
			}
			follow(par)
			if len(problems) > 0 {
				l.Fail(rule, fname, key, p.Pos(par.Pos()), fname+": io.Reader parameter "+par.Name()+" "+strings.Join(dedupKeep(problems), "; "))
			} else {
				l.Prove(rule, fname, key, p.Pos(par.Pos()), "flows only into ["+strings.Join(dedupKeep(sinks), ", ")+"]")
			}
		}
	}
	l.Min(rule, nParams, 8)
}

// readAtLeastIsFull: io.ReadAtLeast(r, buf, min) with min == len(buf) is io.ReadFull; with a smaller minimum the count
// returned depends on the chunking of the stream.
func readAtLeastIsFull(c *ssa.CallCommon) bool {
	if len(c.Args) != 3 {
		return false
	}
	buf, min := c.Args[1], c.Args[2]
	if lc, ok := min.(*ssa.Call); ok {
		if bi, ok := lc.Call.Value.(*ssa.Builtin); ok && bi.Name() == "len" && lc.Call.Args[0] == buf {
			return true
		}
	}
	if k, ok := constInt(min); ok {
		if n, ok := freshSliceLen(buf); ok && n == k {
			return true
		}
	}
	return false
}
