package chk

import (
	"fmt"
	"go/constant"
	"go/token"
	"go/types"
	"math"
	"strings"

	"golang.org/x/tools/go/ssa"
)

// ---- E3c exact truncation (added after seeded changes C03/2, C16/1, C16/2, C16/3) ------------------
// A timestamp is an integer number of nanoseconds; every conversion between it and the fields of a
// timestamp rendering ends in a truncation (float→int conversion, math.Floor, integer division).
// A truncation returns the intended integer only if its operand has not already been rounded in a
// way that can cross an integer. The abstract value of a float expression is one of
//   INT   integer-valued and exact (int→float conversion, integer constant, sums/products of INT,
//         math.Floor/Round/…, 10^n with n ≥ 0)
//   QUOT  at most one correctly rounded non-integer: INT/INT (also chained: INT/INT/INT), a parsed
//         decimal (strconv.ParseFloat), Duration.Hours/Minutes/Seconds, QUOT ± INT. Truncating it
//         is exact: a non-integer quotient a/b is at least 1/b away from an integer, the rounding
//         error is 2^-53 relative (operands of this code base are below 2^53: nanoseconds of 100 h).
//   BAD   anything that multiplies a non-integer float (QUOT × x: 0.29*100 = 28.999…,
//         1.001*1e9 = 1000999999.99…) or divides by one. Truncating BAD can be off by one.
// Rule R1: no truncation of BAD in the codec functions. math.Round of anything is INT (a rounding
//          error of 1e-7 cannot move a value across a half).
// Rule R2 (integers): an integer quotient is not scaled up afterwards (a/b*c with the remainder of
//          a/b already discarded) unless c is the divisor itself (the rounding-down idiom a/b*b).
// What this does not decide: that the right quantities are multiplied (that is E10-A6 and the
// value-level clause of C16).

type xclass int

const (
	xINT xclass = iota
	xQUOT
	xBAD
)

func (c xclass) String() string { return [...]string{"INT", "QUOT", "BAD"}[c] }

type exactness struct {
	p    *Prog
	a    *NilAnalysis
	fn   *ssa.Function
	why  string
	memo map[ssa.Value]xclass
}

func isFloatT(t types.Type) bool {
	b, ok := t.Underlying().(*types.Basic)
	return ok && b.Info()&types.IsFloat != 0
}

func (x *exactness) bad(v ssa.Value, why string) xclass {
	if x.why == "" {
		x.why = why + " at " + x.p.Pos(v.Pos())
	}
	return xBAD
}

func maxClass(a, b xclass) xclass {
	if a > b {
		return a
	}
	return b
}

// paramConstSet: the constants passed for parameter idx at every call site of fn (nil unless fn is an
// unexported top-level function all of whose call sites are static and pass a constant).
func (x *exactness) paramConstSet(prm *ssa.Parameter) []int64 {
	fn := prm.Parent()
	if fn == nil || fn.Parent() != nil || isExportedEntry(fn) {
		return nil
	}
	idx := -1
	for k, q := range fn.Params {
		if q == prm {
			idx = k
		}
	}
	node := x.p.CG.Nodes[fn]
	if idx < 0 || node == nil || len(node.In) == 0 {
		return nil
	}
	var out []int64
	for _, e := range node.In {
		if e.Site == nil || e.Site.Common().StaticCallee() != fn {
			return nil
		}
		args := e.Site.Common().Args
		if idx >= len(args) {
			return nil
		}
		cs := x.intConstSet(args[idx], 0)
		if cs == nil {
			return nil
		}
		out = append(out, cs...)
	}
	return out
}

// intConstSet: the finite set of constants v can be (constant, phi of such, constant-only parameter).
func (x *exactness) intConstSet(v ssa.Value, depth int) []int64 {
	if depth > 4 {
		return nil
	}
	v = stripConv(v)
	if c, ok := constInt(v); ok {
		return []int64{c}
	}
	switch t := v.(type) {
	case *ssa.Phi:
		var out []int64
		for _, e := range t.Edges {
			cs := x.intConstSet(e, depth+1)
			if cs == nil {
				return nil
			}
			out = append(out, cs...)
		}
		return out
	case *ssa.Parameter:
		return x.paramConstSet(t)
	}
	return nil
}

// floatSet: the finite set of values a float expression built from constants and constant-only
// parameters can take.
func (x *exactness) floatSet(v ssa.Value) ([]float64, bool) {
	switch t := v.(type) {
	case *ssa.Const:
		if t.Value == nil {
			return nil, false
		}
		f, _ := constant.Float64Val(constant.ToFloat(t.Value))
		return []float64{f}, true
	case *ssa.Convert:
		return x.floatSet(t.X)
	case *ssa.ChangeType:
		return x.floatSet(t.X)
	case *ssa.Parameter:
		cs := x.paramConstSet(t)
		if cs == nil {
			return nil, false
		}
		var out []float64
		for _, c := range cs {
			out = append(out, float64(c))
		}
		return out, true
	case *ssa.BinOp:
		a, ok1 := x.floatSet(t.X)
		b, ok2 := x.floatSet(t.Y)
		if !ok1 || !ok2 {
			return nil, false
		}
		var out []float64
		for _, p := range a {
			for _, q := range b {
				switch t.Op {
				case token.ADD:
					out = append(out, p+q)
				case token.SUB:
					out = append(out, p-q)
				case token.MUL:
					out = append(out, p*q)
				default:
					return nil, false
				}
			}
		}
		return out, true
	}
	return nil, false
}

func (x *exactness) nonNegInt(v ssa.Value, at ssa.Instruction) bool {
	if fs, ok := x.floatSet(v); ok {
		for _, f := range fs {
			if f < 0 || f != math.Trunc(f) {
				return false
			}
		}
		return true
	}
	a := x.a
	a.cur, a.curFn = at, x.fn
	defer func() { a.cur, a.curFn = nil, nil }()
	g := a.newGraph(x.fn, at)
	t, k, ok := a.intTerm(v)
	if !ok {
		return false
	}
	g.define(v, 0)
	return g.proveLE(zeroTerm, 0, t, k)
}

func (x *exactness) class(v ssa.Value) xclass {
	if c, ok := x.memo[v]; ok {
		return c
	}
	x.memo[v] = xQUOT // cycles through phis: optimistic for the cycle, joined below
	c := x.class1(v)
	x.memo[v] = c
	return c
}

func (x *exactness) class1(v ssa.Value) xclass {
	if !isFloatT(v.Type()) {
		return xINT
	}
	switch t := v.(type) {
	case *ssa.Const:
		if t.Value == nil {
			return xINT
		}
		f, _ := constant.Float64Val(constant.ToFloat(t.Value))
		if f == math.Trunc(f) {
			return xINT
		}
		return xQUOT
	case *ssa.Convert:
		if !isFloatT(t.X.Type()) {
			return xINT
		}
		return x.class(t.X)
	case *ssa.ChangeType:
		return x.class(t.X)
	case *ssa.Phi:
		c := xINT
		for _, e := range t.Edges {
			c = maxClass(c, x.class(e))
		}
		return c
	case *ssa.BinOp:
		a, b := x.class(t.X), x.class(t.Y)
		switch t.Op {
		case token.ADD, token.SUB:
			return maxClass(a, b)
		case token.MUL:
			if a == xINT && b == xINT {
				return xINT
			}
			if a == xBAD || b == xBAD {
				return xBAD
			}
			return x.bad(t, "a non-integer float (a quotient, a parsed decimal or a fractional number of seconds) is multiplied: the product is no longer the nearest double of the exact value")
		case token.QUO:
			if b != xINT {
				if b == xBAD || a == xBAD {
					return xBAD
				}
				return x.bad(t, "division by a non-integer float")
			}
			if a == xBAD {
				return xBAD
			}
			return xQUOT
		}
		return x.bad(t, "unsupported float operation "+t.Op.String())
	case *ssa.UnOp:
		if t.Op == token.SUB {
			return x.class(t.X)
		}
		return xQUOT // a float loaded from memory: treated as one rounded value
	case *ssa.Extract:
		if c, ok := t.Tuple.(*ssa.Call); ok && calleeName(&c.Call) == "strconv.ParseFloat" {
			return xQUOT
		}
		return xQUOT
	case *ssa.Call:
		switch calleeName(&t.Call) {
		case "math.Floor", "math.Ceil", "math.Trunc":
			if x.class(t.Call.Args[0]) == xBAD {
				return xBAD // reported at the site
			}
			return xINT
		case "math.Round", "math.RoundToEven":
			return xINT
		case "math.Pow10":
			if x.nonNegInt(t.Call.Args[0], t) {
				return xINT
			}
			return xQUOT
		case "math.Pow":
			if x.class(t.Call.Args[0]) == xINT && x.nonNegInt(t.Call.Args[1], t) {
				return xINT
			}
			if x.class(t.Call.Args[0]) == xINT {
				return xQUOT
			}
			return x.bad(t, "math.Pow of a non-integer base")
		case "(time.Duration).Hours", "(time.Duration).Minutes", "(time.Duration).Seconds":
			return xQUOT
		}
		return xQUOT
	}
	return xQUOT
}

// truncation sites of fn: float→integer conversions and math.Floor/Ceil/Trunc calls.
func truncSites(fn *ssa.Function) []ssa.Instruction {
	var out []ssa.Instruction
	for _, b := range fn.Blocks {
		for _, ins := range b.Instrs {
			switch t := ins.(type) {
			case *ssa.Convert:
				if isFloatT(t.X.Type()) && isIntegerT(t.Type()) {
					out = append(out, t)
				}
			case *ssa.Call:
				switch calleeName(&t.Call) {
				case "math.Floor", "math.Ceil", "math.Trunc":
					out = append(out, t)
				}
			}
		}
	}
	return out
}

func stripConv(v ssa.Value) ssa.Value {
	for {
		switch t := v.(type) {
		case *ssa.Convert:
			if isIntegerT(t.X.Type()) && isIntegerT(t.Type()) {
				v = t.X
				continue
			}
		case *ssa.ChangeType:
			v = t.X
			continue
		}
		return v
	}
}

func sameIntValue(a, b ssa.Value) bool {
	a, b = stripConv(a), stripConv(b)
	if a == b {
		return true
	}
	ca, ok1 := constInt(a)
	cb, ok2 := constInt(b)
	return ok1 && ok2 && ca == cb
}

// exactScopeExcluded: functions whose arithmetic is real-valued by design.
var exactScopeExcluded = map[string]string{
	"Subtitles.ApplyLinearCorrection": "a linear map with a real slope: results are rounded by design (C15 decides its structure)",
}

func ruleExactTruncation(min int) func(p *Prog, l *Ledger, tier string) {
	return ruleExactTruncationIn("", min)
}

// ruleExactTruncationIn: the same rule restricted to the functions declared in one source file
// ("" = the whole library).
func ruleExactTruncationIn(file string, min int) func(p *Prog, l *Ledger, tier string) {
	return func(p *Prog, l *Ledger, tier string) {
		const rule = "E3c.exact-truncation"
		a := NewNilAnalysis(p)
		n := 0
		// helpers reachable only from an excluded function inherit its exclusion
		excluded := map[*ssa.Function]bool{}
		codec := map[*ssa.Function]bool{}
		for _, f := range c08Scope(p, l, rule, tier) {
			codec[f] = true
		}
		for ex := range exactScopeExcluded {
			if root := p.Fn(ex); root != nil {
				for _, f := range p.Closure([]*ssa.Function{root}) {
					if !codec[f] {
						excluded[f] = true
					}
				}
			}
		}
		for _, fn := range p.LibFns {
			name := FnName(fn)
			if _, skip := exactScopeExcluded[name]; skip || name == "init" || excluded[fn] {
				continue
			}
			if file != "" && !strings.HasPrefix(p.Pos(fn.Pos()), file+":") {
				continue
			}
			for _, ins := range truncSites(fn) {
				n++
				var operand ssa.Value
				kind := "convert"
				switch t := ins.(type) {
				case *ssa.Convert:
					operand = t.X
				case *ssa.Call:
					operand = t.Call.Args[0]
					kind = calleeName(&t.Call)
				}
				x := &exactness{p: p, a: a, fn: fn, memo: map[ssa.Value]xclass{}}
				c := x.class(operand)
				key := l.Key(rule, name, "trunc", kind)
				pos := p.Pos(ins.Pos())
				if c == xBAD {
					l.Fail(rule, name, key, pos, fmt.Sprintf("%s truncates (%s) a float that has already been rounded away from its exact value: %s. The result is one unit too small for some inputs (e.g. 0.29*100 = 28.99…, 1.001*1e9 = 1000999999.99…)", name, kind, x.why))
				} else {
					l.Prove(rule, name, key, pos, "operand of the truncation is "+c.String()+": an exact integer or a single correctly rounded quotient/decimal")
				}
			}
			// R3: division by an integer quotient whose own divisor is not a constant: a / (b / c) uses a
			// truncated unit (time.Second / framerate is 33 333 333 ns at 30 fps, not 1e9/30)
			for _, b := range fn.Blocks {
				for _, ins := range b.Instrs {
					d, ok := ins.(*ssa.BinOp)
					if !ok || d.Op != token.QUO || !isIntegerT(d.Type()) {
						continue
					}
					q, ok := stripConv(d.Y).(*ssa.BinOp)
					if !ok || q.Op != token.QUO || !isIntegerT(q.Type()) {
						continue
					}
					if _, isC := constInt(q.Y); isC {
						continue
					}
					n++
					key := l.Key(rule, name, "quotient-as-divisor", descOf(q.Y))
					l.Fail(rule, name, key, p.Pos(d.Pos()), fmt.Sprintf("%s divides by an integer quotient (… / %s) that has already dropped its remainder: the unit is too short whenever %s does not divide the dividend, so values just below a multiple of the true unit land in the next slot (a frame number equal to the frame rate, a timestamp later than the instant)", name, descOf(q.Y), descOf(q.Y)))
				}
			}
			// R2: integer quotient scaled up afterwards
			for _, b := range fn.Blocks {
				for _, ins := range b.Instrs {
					m, ok := ins.(*ssa.BinOp)
					if !ok || m.Op != token.MUL || !isIntegerT(m.Type()) {
						continue
					}
					for k, side := range []ssa.Value{m.X, m.Y} {
						other := m.Y
						if k == 1 {
							other = m.X
						}
						// d.Milliseconds() / d.Microseconds() are truncating quotients too, and so is what is
						// left of them after taking a remainder or adding a constant (ms % 1000)
						if cn := truncatedDurationUnit(side, 0); cn != "" {
							if _, direct := stripConv(side).(*ssa.Call); !direct {
								if _, isC := constInt(stripConv(other)); !isC {
									n++
									key := l.Key(rule, name, "scaled-quotient", cn)
									l.Fail(rule, name, key, p.Pos(m.Pos()), fmt.Sprintf("%s scales a value derived from %s, which has already dropped the sub-unit part of the duration: a frame boundary that is not a whole number of that unit (33.333334 ms at 30 fps) is computed one too low", name, cn))
								}
								continue
							}
						}
						if c, ok := stripConv(side).(*ssa.Call); ok {
							if cn := calleeName(&c.Call); cn == "(time.Duration).Milliseconds" || cn == "(time.Duration).Microseconds" {
								if one, isC := constInt(stripConv(other)); isC && (one == 1 || one == 1000 || one == 1000000) {
									continue // back to a Duration in whole units: an intended truncation to that unit
								}
								n++
								key := l.Key(rule, name, "scaled-quotient", cn)
								l.Fail(rule, name, key, p.Pos(m.Pos()), fmt.Sprintf("%s scales %s, which has already dropped the sub-unit part of the duration: a frame boundary that is not a whole number of that unit (33.333334 ms at 30 fps) is computed one too low", name, cn))
							}
							// a unit computed by a function of the library: what it returns may be an integer quotient
							if sc := c.Call.StaticCallee(); sc != nil && fnPkg(sc) == p.LibSSA && len(sc.Blocks) > 0 {
								if _, isC := constInt(stripConv(other)); !isC {
									for _, hb := range sc.Blocks {
										r, ok := hb.Instrs[len(hb.Instrs)-1].(*ssa.Return)
										if !ok || len(r.Results) != 1 {
											continue
										}
										hq, ok := stripConv(r.Results[0]).(*ssa.BinOp)
										if !ok || hq.Op != token.QUO || !isIntegerT(hq.Type()) {
											continue
										}
										if _, isC := constInt(stripConv(hq.Y)); isC {
											continue
										}
										n++
										key := l.Key(rule, name, "scaled-quotient", FnName(sc))
										l.Fail(rule, name, key, p.Pos(m.Pos()), fmt.Sprintf("%s multiplies the result of %s, which returns an integer quotient (… / %s, at %s) whose remainder is already discarded: one frame or one tick is too short whenever the rate does not divide the dividend (33333333 ns for a frame at 30 fps), and the error grows with the count", name, FnName(sc), descOf(hq.Y), p.Pos(hq.Pos())))
										break
									}
								}
							}
							continue
						}
						q, ok := stripConv(side).(*ssa.BinOp)
						if !ok {
							// the quotient may have been put aside in a field (a unit computed once per document)
							if t, f, base := loadedField(stripConv(side)); base != nil && f != "" {
								if fq := quotientStoredInField(p, t, f); fq != nil {
									n++
									key := l.Key(rule, name, "scaled-quotient", t+"."+f)
									l.Fail(rule, name, key, p.Pos(m.Pos()), fmt.Sprintf("%s multiplies %s.%s, which holds an integer quotient (… / %s, computed at %s) whose remainder is already discarded: one frame or one tick is too short whenever the rate does not divide the dividend (11111 ns for a 90 kHz tick), and the error grows with the count", name, t, f, descOf(fq.Y), p.Pos(fq.Pos())))
								}
							}
							continue
						}
						if q.Op != token.QUO || !isIntegerT(q.Type()) {
							continue
						}
						n++
						key := l.Key(rule, name, "scaled-quotient", descOf(q.Y))
						if sameIntValue(other, q.Y) {
							l.Prove(rule, name, key, p.Pos(m.Pos()), "a/b*b: rounding down to a multiple of b")
							continue
						}
						if one, ok := constInt(stripConv(other)); ok && (one == 1 || one == -1) {
							l.Prove(rule, name, key, p.Pos(m.Pos()), "quotient multiplied by the unit constant 1 (time.Nanosecond): not scaled")
							continue
						}
						if remainderAlsoUsed(a, fn, q) && !mentionsTime(q.X, 0) {
							l.Prove(rule, name, key, p.Pos(m.Pos()), "the dividend is not a time quantity and the remainder of the same division is used as well: a decomposition into quotient and remainder (row and column of a grid)")
							continue
						}
						l.Fail(rule, name, key, p.Pos(m.Pos()), fmt.Sprintf("%s multiplies an integer quotient (… / %s) whose remainder is already discarded: divide last, or the result is too small whenever the divisor does not divide the dividend", name, descOf(q.Y)))
					}
				}
			}
		}
		l.Min(rule, n, min)
	}
}

// ---- E10-A8 rounding direction of the STL frame field ----------------------------------------------
// The STL reader turns a frame number k into nanoseconds (k·1e9/fr), the writer turns nanoseconds
// into a frame number (t·fr/1e9). If both divisions round down, writer(reader(k)) = k−1 whenever fr
// does not divide k·1e9 (floor(x)·fr/1e9 < k for non-integer x = k·1e9/fr): a read-write cycle loses
// a frame. Sound combinations: the reader rounds up (the first nanosecond of frame k) and the writer
// rounds down; or the writer rounds to nearest. The rule extracts the rounding mode of each division
// from the shape of its dividend (a·b → floor, a·b + d − 1 → ceil, a·b + d/2 → nearest) and
// compares them against the frame rates of the frame-rate table that do not divide 1e9.

type linTerm struct {
	v ssa.Value // nil for a constant
	c int64
}

// addends flattens an integer expression into its top-level addends (sign applied to constants).
func addends(v ssa.Value, sign int64, out *[]linTerm) {
	v = stripConv(v)
	if c, ok := constInt(v); ok {
		*out = append(*out, linTerm{nil, sign * c})
		return
	}
	if b, ok := v.(*ssa.BinOp); ok {
		switch b.Op {
		case token.ADD:
			addends(b.X, sign, out)
			addends(b.Y, sign, out)
			return
		case token.SUB:
			addends(b.X, sign, out)
			addends(b.Y, -sign, out)
			return
		}
	}
	*out = append(*out, linTerm{v, sign})
}

// divMode classifies q = dividend / divisor. product reports whether a top-level addend is a product.
func divMode(q *ssa.BinOp) (mode string, product *ssa.BinOp) {
	var ts []linTerm
	addends(q.X, 1, &ts)
	divisor := stripConv(q.Y)
	dc, dconst := constInt(divisor)
	var konst int64
	extraDiv, extraHalf, other := 0, 0, 0
	for _, t := range ts {
		if t.v == nil {
			konst += t.c
			continue
		}
		if m, ok := t.v.(*ssa.BinOp); ok && m.Op == token.MUL && product == nil && t.c == 1 {
			product = m
			continue
		}
		if t.c == 1 && t.v == divisor {
			extraDiv++
			continue
		}
		if h, ok := t.v.(*ssa.BinOp); ok && t.c == 1 && h.Op == token.QUO && stripConv(h.X) == divisor {
			if two, ok := constInt(h.Y); ok && two == 2 {
				extraHalf++
				continue
			}
		}
		other++
	}
	switch {
	case product == nil || other > 0:
		return "unknown", product
	case extraDiv == 0 && extraHalf == 0 && konst == 0:
		return "floor", product
	case extraDiv == 1 && extraHalf == 0 && konst == -1:
		return "ceil", product
	case dconst && extraDiv == 0 && extraHalf == 0 && konst == dc-1:
		return "ceil", product
	case extraDiv == 0 && extraHalf == 1 && konst == 0:
		return "nearest", product
	case dconst && extraDiv == 0 && extraHalf == 0 && konst == dc/2:
		return "nearest", product
	}
	return "unknown", product
}

func ruleSTLRounding(p *Prog, l *Ledger, tier string) {
	const rule = "E10.A8-frame-rounding"
	var rates []int64
	nondiv := false
	for _, pr := range p.BiMaps().byGlobal["stlFramerateMapping"] {
		if v, ok := constInt(pr.v); ok && v > 0 {
			rates = append(rates, v)
			if 1000000000%v != 0 {
				nondiv = true
			}
		}
	}
	if len(rates) == 0 {
		l.Undecide(rule, "", rule+"|rates", "", "frame-rate table stlFramerateMapping not found or not constant")
		return
	}
	frameParam := func(fn *ssa.Function) ssa.Value {
		for _, prm := range fn.Params {
			if prm.Name() == "framerate" && isIntegerT(prm.Type()) {
				return prm
			}
		}
		// fall back: the only int parameter
		var only ssa.Value
		for _, prm := range fn.Params {
			if isIntegerT(prm.Type()) {
				if only != nil {
					return nil
				}
				only = prm
			}
		}
		return only
	}
	n := 0
	for _, pair := range [][2]string{{"parseDurationSTL", "formatDurationSTL"}, {"parseDurationSTLBytes", "formatDurationSTLBytes"}} {
		rfn, wfn := anchor(p, l, rule, pair[0]), anchor(p, l, rule, pair[1])
		if rfn == nil || wfn == nil {
			continue
		}
		key := l.Key(rule, pair[0]+"/"+pair[1], "pair", "frames")
		rfr, wfr := frameParam(rfn), frameParam(wfn)
		if rfr == nil || wfr == nil {
			l.Undecide(rule, pair[0], key, "", "frame-rate parameter not identified")
			continue
		}
		find := func(fn *ssa.Function, fr0 ssa.Value, reader bool) (string, *ssa.BinOp) {
			// the frame rate as the helpers of fn see it: fn's parameter and the helper parameters bound to it
			frs := []ssa.Value{fr0}
			for _, h := range p.Helpers(fn) {
				for _, prm := range h.Params {
					if h != fn && p.rootValue(fn, prm) == fr0 {
						frs = append(frs, prm)
					}
				}
			}
			uses := func(v, _ ssa.Value) bool {
				for _, fr := range frs {
					if stripConv(v) == fr {
						return true
					}
				}
				return false
			}
			mentions := func(v, _ ssa.Value, d int) bool {
				for _, fr := range frs {
					if mentions(v, fr, d) {
						return true
					}
				}
				return false
			}
			fr := fr0
			blocks := p.helperBlocks(fn)
			for _, b := range blocks {
				for _, ins := range b.Instrs {
					q, ok := ins.(*ssa.BinOp)
					if !ok || q.Op != token.QUO || !isIntegerT(q.Type()) {
						continue
					}
					mode, prod := divMode(q)
					if reader && uses(q.Y, fr) {
						return mode, q
					}
					if !reader && prod != nil && (uses(prod.X, fr) || uses(prod.Y, fr)) {
						return mode, q
					}
				}
			}
			// float forms: Convert/Floor/Ceil/Round of a float quotient involving the frame rate
			for _, b := range blocks {
				for _, ins := range b.Instrs {
					c, ok := ins.(*ssa.Call)
					if !ok {
						continue
					}
					m := map[string]string{"math.Floor": "floor", "math.Ceil": "ceil", "math.Round": "nearest", "math.Trunc": "floor"}[calleeName(&c.Call)]
					if m == "" {
						continue
					}
					if fq, ok := c.Call.Args[0].(*ssa.BinOp); ok && fq.Op == token.QUO && mentions(fq, fr, 0) {
						return m, fq
					}
				}
			}
			return "", nil
		}
		rmode, rq := find(rfn, rfr, true)
		wmode, wq := find(wfn, wfr, false)
		n++
		if rq == nil || wq == nil || rmode == "unknown" || wmode == "unknown" {
			l.Undecide(rule, pair[0], key, "", fmt.Sprintf("frame conversions not recognised (reader %q, writer %q): the rounding direction of the frame field cannot be extracted", rmode, wmode))
			continue
		}
		pos := p.Pos(rq.Pos())
		ok := !nondiv || (rmode == "ceil" && wmode == "floor") || wmode == "nearest" && rmode != "ceil"
		if ok {
			l.Prove(rule, pair[0], key, pos, fmt.Sprintf("reader rounds %s, writer rounds %s: the writer maps the reader's instant for frame k back to k for the table's rates %v", rmode, wmode, rates))
		} else {
			l.Fail(rule, pair[0], key, pos, fmt.Sprintf("%s rounds the frame's instant %s and %s rounds the frame number %s: for the table's frame rates that do not divide 1e9 (%v) the instant read for frame k is written back as frame k−1 (e.g. 30 fps: frame 1 → 33333333ns → 33333333·30/1e9 = 0)", pair[0], rmode, pair[1], wmode, rates))
		}
	}
	l.Min(rule, n, 2)
}

func mentions(v ssa.Value, target ssa.Value, depth int) bool {
	if depth > 6 {
		return false
	}
	if stripAllConv(v) == target {
		return true
	}
	switch t := v.(type) {
	case *ssa.BinOp:
		return mentions(t.X, target, depth+1) || mentions(t.Y, target, depth+1)
	case *ssa.Convert:
		return mentions(t.X, target, depth+1)
	case *ssa.ChangeType:
		return mentions(t.X, target, depth+1)
	}
	return false
}

func stripAllConv(v ssa.Value) ssa.Value {
	for {
		switch t := v.(type) {
		case *ssa.Convert:
			v = t.X
			continue
		case *ssa.ChangeType:
			v = t.X
			continue
		}
		return v
	}
}

// truncatedDurationUnit: v is (time.Duration).Milliseconds()/Microseconds() or is obtained from one by
// remainders, sums and differences with constants: the name of the accessor, "" otherwise.
func truncatedDurationUnit(v ssa.Value, depth int) string {
	if depth > 6 {
		return ""
	}
	switch x := stripConv(v).(type) {
	case *ssa.Call:
		if cn := calleeName(&x.Call); cn == "(time.Duration).Milliseconds" || cn == "(time.Duration).Microseconds" {
			return cn
		}
	case *ssa.BinOp:
		switch x.Op {
		case token.REM, token.ADD, token.SUB:
			if _, isC := constInt(stripConv(x.Y)); isC {
				return truncatedDurationUnit(x.X, depth+1)
			}
		}
	}
	return ""
}

// remainderAlsoUsed: fn also computes x % d for the dividend x and divisor d of the quotient q (the same
// expression: equal constants, the same registers, loads of the same access path) and uses it.
func remainderAlsoUsed(a *NilAnalysis, fn *ssa.Function, q *ssa.BinOp) bool {
	var same func(x, y ssa.Value, depth int) bool
	same = func(x, y ssa.Value, depth int) bool {
		x, y = stripConv(x), stripConv(y)
		if x == y {
			return true
		}
		if depth > 6 {
			return false
		}
		if cx, ok := constInt(x); ok {
			cy, ok2 := constInt(y)
			return ok2 && cx == cy
		}
		switch u := x.(type) {
		case *ssa.BinOp:
			v, ok := y.(*ssa.BinOp)
			return ok && u.Op == v.Op && same(u.X, v.X, depth+1) && same(u.Y, v.Y, depth+1)
		case *ssa.UnOp:
			v, ok := y.(*ssa.UnOp)
			if !ok || u.Op != v.Op {
				return false
			}
			if u.Op == token.MUL {
				pu, pv := a.pathOf(u.X, 0), a.pathOf(v.X, 0)
				return pu != "" && pu == pv
			}
			return same(u.X, v.X, depth+1)
		}
		return false
	}
	for _, b := range fn.Blocks {
		for _, ins := range b.Instrs {
			r, ok := ins.(*ssa.BinOp)
			if !ok || r.Op != token.REM || len(*r.Referrers()) == 0 {
				continue
			}
			if same(r.X, q.X, 0) && same(r.Y, q.Y, 0) {
				return true
			}
		}
	}
	return false
}

// mentionsTime: the expression reads a time.Duration (or calls something): a quantity of time.
func mentionsTime(v ssa.Value, depth int) bool {
	if v == nil || depth > 8 {
		return depth > 8
	}
	if typeStr(v.Type()) == "Duration" || strings.HasSuffix(v.Type().String(), "time.Duration") {
		return true
	}
	switch x := v.(type) {
	case *ssa.Const:
		return false
	case *ssa.BinOp:
		return mentionsTime(x.X, depth+1) || mentionsTime(x.Y, depth+1)
	case *ssa.Convert:
		return mentionsTime(x.X, depth+1)
	case *ssa.ChangeType:
		return mentionsTime(x.X, depth+1)
	case *ssa.UnOp:
		if x.Op == token.MUL {
			return false // a load: its own type was looked at above
		}
		return mentionsTime(x.X, depth+1)
	case *ssa.Phi:
		for _, e := range x.Edges {
			if mentionsTime(e, depth+1) {
				return true
			}
		}
		return false
	case *ssa.Parameter, *ssa.FreeVar:
		return false
	}
	return true // calls and anything else: not excluded
}

// quotientStoredInField: some store of the library into field f of struct type t holds an integer quotient whose divisor
// is not a constant.
func quotientStoredInField(p *Prog, t, f string) *ssa.BinOp {
	for _, fn := range p.LibFns {
		for _, b := range fn.Blocks {
			for _, ins := range b.Instrs {
				st, ok := ins.(*ssa.Store)
				if !ok {
					continue
				}
				if t2, f2 := fieldOfAddr(st.Addr); t2 != t || f2 != f {
					continue
				}
				if q, ok := stripConv(st.Val).(*ssa.BinOp); ok && q.Op == token.QUO && isIntegerT(q.Type()) {
					if _, isC := constInt(stripConv(q.Y)); !isC {
						return q
					}
				}
			}
		}
	}
	return nil
}
